package ref

import "strconv"

// TagClass is the reference verdict on a struct tag string.
type TagClass int

const (
	TagAccept TagClass = iota // conventional key:"value" pairs: must be read exactly
	TagReject                 // malformed: must be reported as ErrTag
	TagGrey                   // neither the Go convention nor the documentation decides
)

type TagPair struct{ Key, Value string }

// ParseTag is a reference scanner for the conventional struct tag format
// (reflect.StructTag): optional blanks, then key:"quoted Go string", repeated.
func ParseTag(tag string) ([]TagPair, TagClass) {
	var pairs []TagPair
	grey := false
	s := tag
	for {
		for len(s) > 0 && s[0] == ' ' {
			s = s[1:]
		}
		if s == "" {
			break
		}
		i := 0
		for i < len(s) && s[i] != ' ' && s[i] != ':' && s[i] != '"' {
			if s[i] < ' ' || s[i] == 0x7f || s[i] == '\\' {
				grey = true // control characters / backslashes in a key: not conventional, not documented as an error
			}
			i++
		}
		if i >= len(s) {
			return nil, orGrey(TagReject, grey) // key without colon
		}
		if s[i] != ':' {
			return nil, orGrey(TagReject, grey) // key followed by blank or quote
		}
		if i == 0 {
			grey = true // empty key
		}
		key := s[:i]
		s = s[i+1:]
		if s == "" || s[0] != '"' {
			return nil, orGrey(TagReject, grey) // value must start with a quote
		}
		j := 1
		for j < len(s) && s[j] != '"' {
			if s[j] == '\n' {
				return nil, orGrey(TagReject, grey) // raw line break inside a value
			}
			if s[j] == '\\' {
				j++
			}
			j++
		}
		if j >= len(s) {
			return nil, orGrey(TagReject, grey) // unterminated value
		}
		val, err := strconv.Unquote(s[:j+1])
		if err != nil {
			return nil, orGrey(TagReject, grey) // bad escape
		}
		pairs = append(pairs, TagPair{key, val})
		s = s[j+1:]
	}
	if grey {
		return pairs, TagGrey
	}
	return pairs, TagAccept
}

func orGrey(c TagClass, grey bool) TagClass {
	if grey {
		return TagGrey
	}
	return c
}
