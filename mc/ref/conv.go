package ref

import (
	"errors"
	"fmt"
	"math"
	"math/big"
	"reflect"
	"sort"
	"strconv"
	"strings"
	"time"

	flags "github.com/jessevdk/go-flags"
)

// Class says how firmly the specification decides a (type, text) pair.
type Class int

const (
	MustAccept Class = iota // canonical text of a value of the type: must be accepted with exactly Value
	MustReject              // denotes no value of the type
	Grey                    // acceptance not asserted; if accepted the value must be Value (when HasValue)
)

func (c Class) String() string { return [...]string{"must-accept", "must-reject", "grey"}[c] }

// Verdict is the reference answer for one conversion.
type Verdict struct {
	Class    Class
	Value    reflect.Value // valid unless MustReject (or Grey without HasValue)
	HasValue bool
}

var durationType = reflect.TypeOf(time.Duration(0))
var unmarshalerType = reflect.TypeOf((*flags.Unmarshaler)(nil)).Elem()

// CustomUnmarshal is the reference behaviour of harness Unmarshaler types, keyed by type name.
var CustomUnmarshal = map[string]func(string) (interface{}, error){}

// CustomAppend is the reference behaviour of Unmarshaler types whose UnmarshalFlag extends the receiver.
var CustomAppend = map[string]func(cur reflect.Value, text string) (reflect.Value, error){}

func digitVal(c byte) int {
	switch {
	case c >= '0' && c <= '9':
		return int(c - '0')
	case c >= 'a' && c <= 'z':
		return int(c-'a') + 10
	case c >= 'A' && c <= 'Z':
		return int(c-'A') + 10
	}
	return 99
}

// parseDigits: text must be a non-empty run of digits < base; no sign, no prefix.
func parseDigits(s string, base int) (*big.Int, bool) {
	if s == "" {
		return nil, false
	}
	v := new(big.Int)
	b := big.NewInt(int64(base))
	for i := 0; i < len(s); i++ {
		d := digitVal(s[i])
		if d >= base {
			return nil, false
		}
		v.Mul(v, b)
		v.Add(v, big.NewInt(int64(d)))
	}
	return v, true
}

// intVerdict classifies text as an integer of the given bit size.
//
//	canonical: optional '-' (signed only) followed by digits of the base  -> must accept iff in range, else must reject
//	leading '+', '_' separators, 0x/0b/0o prefixes (base 0 is never used)  -> grey, value as read if it can be read
//	everything else (empty, lone sign, other characters, '.', 'e')         -> must reject
func intVerdict(text string, base int, bits int, signed bool) (*big.Int, Class) {
	if base < 2 || base > 36 {
		return nil, Grey
	}
	s := text
	neg := false
	grey := false
	if strings.HasPrefix(s, "-") {
		neg = true
		s = s[1:]
	} else if strings.HasPrefix(s, "+") {
		grey = true // Go's strconv accepts a leading plus; the documentation does not say
		s = s[1:]
	}
	if strings.Contains(s, "_") {
		// underscores are only legal with base 0: with an explicit base they are not digits
		return nil, MustReject
	}
	v, ok := parseDigits(s, base)
	if !ok {
		return nil, MustReject
	}
	if neg {
		if !signed {
			if v.Sign() == 0 {
				return nil, Grey // "-0" for unsigned: strconv.ParseUint rejects it; not asserted
			}
			return nil, MustReject
		}
		v.Neg(v)
	}
	var lo, hi *big.Int
	one := big.NewInt(1)
	if signed {
		hi = new(big.Int).Sub(new(big.Int).Lsh(one, uint(bits-1)), one)
		lo = new(big.Int).Neg(new(big.Int).Lsh(one, uint(bits-1)))
	} else {
		lo = big.NewInt(0)
		hi = new(big.Int).Sub(new(big.Int).Lsh(one, uint(bits)), one)
	}
	if v.Cmp(lo) < 0 || v.Cmp(hi) > 0 {
		return nil, MustReject
	}
	if grey {
		return v, Grey
	}
	return v, MustAccept
}

// floatVerdict: plain decimal numerals (optional sign, digits, optional fraction, optional exponent)
// are canonical; inf/nan spellings, hex floats and underscores are grey.
func floatVerdict(text string, bits int) (float64, Class, bool) {
	s := text
	if s == "" {
		return 0, MustReject, false
	}
	i := 0
	if s[i] == '-' || s[i] == '+' {
		i++
	}
	digits := 0
	for i < len(s) && s[i] >= '0' && s[i] <= '9' {
		i++
		digits++
	}
	if i < len(s) && s[i] == '.' {
		i++
		for i < len(s) && s[i] >= '0' && s[i] <= '9' {
			i++
			digits++
		}
	}
	canonical := digits > 0
	if canonical && i < len(s) && (s[i] == 'e' || s[i] == 'E') {
		j := i + 1
		if j < len(s) && (s[j] == '-' || s[j] == '+') {
			j++
		}
		ed := 0
		for j < len(s) && s[j] >= '0' && s[j] <= '9' {
			j++
			ed++
		}
		if ed == 0 {
			canonical = false
		}
		i = j
	}
	if !canonical || i != len(s) {
		// not a plain decimal numeral
		low := strings.ToLower(strings.TrimLeft(s, "+-"))
		switch {
		case low == "inf" || low == "infinity" || low == "nan":
			return 0, Grey, false
		case strings.HasPrefix(low, "0x") || strings.Contains(low, "_"):
			return 0, Grey, false
		}
		// letters other than a well-formed exponent, several dots, several signs, blanks
		return 0, MustReject, false
	}
	if len(s) > 60 {
		return 0, Grey, false
	}
	r, ok := new(big.Rat).SetString(s)
	if !ok {
		return 0, Grey, false
	}
	var f float64
	if bits == 32 {
		f32, _ := r.Float32()
		f = float64(f32)
	} else {
		f, _ = r.Float64()
	}
	if math.IsInf(f, 0) {
		return 0, MustReject, false // magnitude beyond the type: not a value of the type
	}
	if f == 0 && strings.HasPrefix(s, "-") {
		f = math.Copysign(0, -1)
	}
	return f, MustAccept, true
}

// ConvScalar classifies text for a non-slice, non-map, non-func type.
func ConvScalar(rt reflect.Type, base int, text string) Verdict {
	if rt.Kind() == reflect.Ptr {
		v := ConvScalar(rt.Elem(), base, text)
		if v.HasValue {
			p := reflect.New(rt.Elem())
			p.Elem().Set(v.Value)
			v.Value = p
		}
		return v
	}
	if reflect.PtrTo(rt).Implements(unmarshalerType) {
		f := CustomUnmarshal[rt.Name()]
		if f == nil {
			return Verdict{Class: Grey}
		}
		val, err := f(text)
		if err != nil {
			return Verdict{Class: MustReject}
		}
		return Verdict{Class: MustAccept, Value: reflect.ValueOf(val), HasValue: true}
	}
	if rt == durationType {
		// trusted base: Go's own definition of the duration syntax
		d, err := time.ParseDuration(text)
		if err != nil {
			return Verdict{Class: MustReject}
		}
		return Verdict{Class: MustAccept, Value: reflect.ValueOf(d), HasValue: true}
	}
	switch rt.Kind() {
	case reflect.String:
		v := reflect.New(rt).Elem()
		v.SetString(text)
		return Verdict{Class: MustAccept, Value: v, HasValue: true}
	case reflect.Bool:
		switch text {
		case "true", "false":
			return Verdict{Class: MustAccept, Value: reflect.ValueOf(text == "true"), HasValue: true}
		case "":
			return Verdict{Class: Grey, Value: reflect.ValueOf(true), HasValue: true}
		}
		if b, err := strconv.ParseBool(text); err == nil {
			return Verdict{Class: Grey, Value: reflect.ValueOf(b), HasValue: true}
		}
		return Verdict{Class: MustReject}
	case reflect.Int, reflect.Int8, reflect.Int16, reflect.Int32, reflect.Int64:
		if base == 0 {
			var grey bool
			if text, base, grey = autoBase(text); grey {
				return Verdict{Class: Grey}
			}
		}
		n, cl := intVerdict(text, base, rt.Bits(), true)
		if n == nil {
			return Verdict{Class: cl}
		}
		v := reflect.New(rt).Elem()
		v.SetInt(n.Int64())
		return Verdict{Class: cl, Value: v, HasValue: true}
	case reflect.Uint, reflect.Uint8, reflect.Uint16, reflect.Uint32, reflect.Uint64:
		if base == 0 {
			var grey bool
			if text, base, grey = autoBase(text); grey {
				return Verdict{Class: Grey}
			}
		}
		n, cl := intVerdict(text, base, rt.Bits(), false)
		if n == nil {
			return Verdict{Class: cl}
		}
		v := reflect.New(rt).Elem()
		v.SetUint(n.Uint64())
		return Verdict{Class: cl, Value: v, HasValue: true}
	case reflect.Float32, reflect.Float64:
		f, cl, has := floatVerdict(text, rt.Bits())
		if !has {
			return Verdict{Class: cl}
		}
		v := reflect.New(rt).Elem()
		v.SetFloat(f)
		return Verdict{Class: cl, Value: v, HasValue: true}
	}
	return Verdict{Class: Grey}
}

// ErrGrey is returned by Apply when the specification does not decide the conversion.
var ErrGrey = errors.New("grey")

// ErrReject is returned by Apply when the text denotes no value of the type.
var ErrReject = errors.New("rejected")

// Apply folds one argument text into cur (the option's value so far), as the
// documentation describes: scalars are replaced, slices appended to, maps get
// key:value (split at the first colon) inserted.
func Apply(cur reflect.Value, base int, text string) (reflect.Value, error) {
	rt := cur.Type()
	if f := CustomAppend[rt.Name()]; f != nil && rt.Name() != "" {
		nv, err := f(cur, text)
		if err != nil {
			return cur, ErrReject
		}
		return nv, nil
	}
	switch {
	case rt.Kind() == reflect.Slice && !reflect.PtrTo(rt).Implements(unmarshalerType):
		v := ConvScalar(rt.Elem(), base, text)
		if v.Class == MustReject {
			return cur, ErrReject
		}
		if v.Class == Grey {
			return cur, ErrGrey
		}
		return reflect.Append(cur, v.Value), nil
	case rt.Kind() == reflect.Map:
		key, val := text, ""
		if i := strings.Index(text, ":"); i >= 0 {
			key, val = text[:i], text[i+1:]
		}
		kv := ConvScalar(rt.Key(), base, key)
		vv := ConvScalar(rt.Elem(), base, val)
		if kv.Class == MustReject || vv.Class == MustReject {
			return cur, ErrReject
		}
		if kv.Class == Grey || vv.Class == Grey {
			return cur, ErrGrey
		}
		out := reflect.MakeMap(rt)
		if !cur.IsNil() {
			for _, k := range cur.MapKeys() {
				out.SetMapIndex(k, cur.MapIndex(k))
			}
		}
		out.SetMapIndex(kv.Value, vv.Value)
		return out, nil
	default:
		v := ConvScalar(rt, base, text)
		if v.Class == MustReject {
			return cur, ErrReject
		}
		if v.Class == Grey {
			return cur, ErrGrey
		}
		return v.Value, nil
	}
}

// Empty is the value of a multi-valued option before its first explicit occurrence.
func Empty(rt reflect.Type) reflect.Value {
	if rt.Kind() == reflect.Map {
		return reflect.MakeMap(rt)
	}
	return reflect.Zero(rt)
}

// SameValue compares two option values: nil and empty slices/maps are the same value, NaN equals NaN.
func SameValue(a, b reflect.Value) bool {
	if a.Type() != b.Type() {
		return false
	}
	switch a.Kind() {
	case reflect.Slice:
		if a.Len() != b.Len() {
			return false
		}
		for i := 0; i < a.Len(); i++ {
			if !SameValue(a.Index(i), b.Index(i)) {
				return false
			}
		}
		return true
	case reflect.Map:
		if a.Len() != b.Len() {
			return false
		}
		for _, k := range a.MapKeys() {
			bv := b.MapIndex(k)
			if !bv.IsValid() || !SameValue(a.MapIndex(k), bv) {
				return false
			}
		}
		return true
	case reflect.Ptr:
		if a.IsNil() || b.IsNil() {
			return a.IsNil() == b.IsNil()
		}
		return SameValue(a.Elem(), b.Elem())
	case reflect.Float32, reflect.Float64:
		x, y := a.Float(), b.Float()
		if math.IsNaN(x) || math.IsNaN(y) {
			return math.IsNaN(x) && math.IsNaN(y)
		}
		return x == y && math.Signbit(x) == math.Signbit(y)
	case reflect.Func:
		return a.IsNil() == b.IsNil()
	case reflect.Interface:
		if a.IsNil() || b.IsNil() {
			return a.IsNil() == b.IsNil()
		}
		return SameValue(a.Elem(), b.Elem())
	}
	return reflect.DeepEqual(a.Interface(), b.Interface())
}

// Show renders a value for reports and observations (pointers are followed, map entries sorted: the
// rendering is a function of the value, never of addresses or iteration order).
func Show(v reflect.Value) string {
	if !v.IsValid() {
		return "<invalid>"
	}
	switch v.Kind() {
	case reflect.Ptr, reflect.Interface:
		if v.IsNil() {
			return "nil"
		}
		return "&" + Show(v.Elem())
	case reflect.Func:
		return "func"
	case reflect.Slice, reflect.Array:
		if v.Kind() == reflect.Slice && v.IsNil() {
			return v.Type().String() + "(nil)"
		}
		parts := make([]string, v.Len())
		for i := range parts {
			parts[i] = Show(v.Index(i))
		}
		return v.Type().String() + "{" + strings.Join(parts, ", ") + "}"
	case reflect.Map:
		if v.IsNil() {
			return v.Type().String() + "(nil)"
		}
		var parts []string
		for _, k := range v.MapKeys() {
			parts = append(parts, Show(k)+":"+Show(v.MapIndex(k)))
		}
		sort.Strings(parts)
		return v.Type().String() + "{" + strings.Join(parts, ", ") + "}"
	}
	return fmt.Sprintf("%#v", v.Interface())
}

// autoBase resolves base 0 ("infer the base from the prefix", as in Go source): 0x.. 16, 0b.. 2, 0o.. and 0.. 8, else 10.
// It returns the numeral without its prefix (sign kept) and the base; underscores make the text grey.
func autoBase(text string) (string, int, bool) {
	if strings.Contains(text, "_") {
		return text, 10, true
	}
	sign, rest := "", text
	if len(rest) > 0 && (rest[0] == '+' || rest[0] == '-') {
		sign, rest = rest[:1], rest[1:]
	}
	// a sign is only legal in front of the prefix: what follows a prefix must be digits
	digits := func(s string) bool { return len(s) > 0 && s[0] != '+' && s[0] != '-' }
	switch {
	case len(rest) > 2 && (rest[:2] == "0x" || rest[:2] == "0X" || rest[:2] == "0b" || rest[:2] == "0B" || rest[:2] == "0o" || rest[:2] == "0O") && !digits(rest[2:]):
		return text, 10, false // (not a numeral in any base; base 10 refuses it)
	case len(rest) > 1 && rest[0] == '0' && !digits(rest[1:]):
		return text, 10, false
	case len(rest) > 2 && (rest[:2] == "0x" || rest[:2] == "0X"):
		return sign + rest[2:], 16, false
	case len(rest) > 2 && (rest[:2] == "0b" || rest[:2] == "0B"):
		return sign + rest[2:], 2, false
	case len(rest) > 2 && (rest[:2] == "0o" || rest[:2] == "0O"):
		return sign + rest[2:], 8, false
	case len(rest) > 1 && rest[0] == '0':
		return sign + rest[1:], 8, false
	}
	return text, 10, false
}
