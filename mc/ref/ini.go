package ref

import (
	"reflect"
	"strconv"
	"strings"

	"verif/mc/decl"
)

// Reference model of INI reading, written from the documentation of
// IniParser.Parse and the property statements (C12–C14).

type IniEntry struct {
	Name   string
	Value  string
	Quoted bool
	Line   int
}

type IniFile struct {
	Sections   map[string][]IniEntry
	Order      []string // section names in order of first appearance ("" = entries before any header)
	SyntaxLine int      // 1-based line of the first syntax fault (0 = none)
	SyntaxWhat string
	Lines      int
}

// ReadIni splits text into lines (LF or CRLF), classifies each line and stops at the first syntax fault.
func ReadIni(text string) *IniFile {
	f := &IniFile{Sections: map[string][]IniEntry{"": nil}, Order: []string{""}}
	if text == "" {
		return f
	}
	lines := strings.Split(text, "\n")
	if strings.HasSuffix(text, "\n") {
		lines = lines[:len(lines)-1]
	}
	f.Lines = len(lines)
	cur := ""
	for i, raw := range lines {
		ln := i + 1
		line := strings.TrimSpace(raw)
		if line == "" || line[0] == ';' || line[0] == '#' {
			continue
		}
		if line[0] == '[' {
			if line[len(line)-1] != ']' {
				f.SyntaxLine, f.SyntaxWhat = ln, "section header"
				return f
			}
			name := strings.TrimSpace(line[1 : len(line)-1])
			if name == "" {
				f.SyntaxLine, f.SyntaxWhat = ln, "empty section name"
				return f
			}
			cur = name
			if _, ok := f.Sections[name]; !ok {
				f.Sections[name] = nil
				f.Order = append(f.Order, name)
			}
			continue
		}
		eq := strings.Index(line, "=")
		if eq < 0 {
			f.SyntaxLine, f.SyntaxWhat = ln, "no key=value"
			return f
		}
		name := strings.TrimSpace(line[:eq])
		value := strings.TrimSpace(line[eq+1:])
		if name == "" {
			f.SyntaxLine, f.SyntaxWhat = ln, "no key=value" // "= value": a line without a key is malformed
			return f
		}
		quoted := false
		if value != "" && value[0] == '"' {
			v, err := strconv.Unquote(value)
			if err != nil {
				f.SyntaxLine, f.SyntaxWhat = ln, "bad quoting"
				return f
			}
			value, quoted = v, true
		}
		f.Sections[cur] = append(f.Sections[cur], IniEntry{Name: name, Value: value, Quoted: quoted, Line: ln})
	}
	return f
}

// IniGroups resolves a section name to the groups it addresses:
// "" = all of the parser's own groups; a group description (case-insensitive); a dotted command path,
// optionally followed by a group description.
type IniGroup struct {
	Opts []*decl.Opt // options of the group and of all its subgroups, in declaration order
}

func groupOpts(g *decl.Group) []*decl.Opt {
	out := append([]*decl.Opt{}, g.Opts...)
	for _, gg := range g.Groups {
		out = append(out, groupOpts(gg)...)
	}
	return out
}

func findGroup(gs []*decl.Group, name string) *decl.Group {
	var found *decl.Group
	var rec func(gs []*decl.Group)
	rec = func(gs []*decl.Group) {
		for _, g := range gs {
			if strings.EqualFold(g.Name, name) {
				found = g // the documentation does not say which of several equally named groups; the last one wins in practice
			}
			rec(g.Groups)
		}
	}
	rec(gs)
	return found
}

// cmdGroupByName: name relative to command c. topName is the description of the command's own group ("" for subcommands).
func cmdGroupByName(c *decl.Cmd, name string, ownName string) []*decl.Opt {
	if name == "" {
		return c.AllOpts()
	}
	if ownName != "" && strings.EqualFold(ownName, name) {
		// the command's own group addressed by its description: its options and its subgroups'
		return c.AllOpts()
	}
	if g := findGroup(c.Groups, name); g != nil {
		return groupOpts(g)
	}
	for _, sc := range c.Cmds {
		if strings.HasPrefix(name, sc.Name+".") {
			if r := cmdGroupByName(sc, name[len(sc.Name)+1:], ""); r != nil {
				return r
			}
		} else if name == sc.Name {
			return sc.AllOpts()
		}
	}
	return nil
}

// SectionOptions returns the candidate options of a section (nil, false if the section is unknown).
// topGroup is the description of the group holding the parser's own options ("Application Options" with NewParser).
func SectionOptions(d *decl.Decl, section string, topGroup string) ([]*decl.Opt, bool) {
	if section == "" {
		return d.Top.AllOpts(), true
	}
	r := cmdGroupByName(d.Top, section, topGroup)
	return r, r != nil
}

// ResolveIniName picks the option an entry name selects among candidates:
// ini-name (case-insensitive) > field name > namespaced long name > short name.
func ResolveIniName(cands []*decl.Opt, name string) *decl.Opt {
	best, prio := (*decl.Opt)(nil), 0
	for _, o := range cands {
		if strings.EqualFold(o.IniName, name) && o.IniName != "" && prio < 4 {
			best, prio = o, 4
		}
		if o.Field == name && prio < 3 {
			best, prio = o, 3
		}
		if o.LongNS != "" && o.LongNS == name && prio < 2 {
			best, prio = o, 2
		}
		if o.Short != "" && o.Short == name && prio < 1 {
			best, prio = o, 1
		}
	}
	if best != nil && best.NoIni != "" {
		return nil
	}
	return best
}

// IniFault is one reason the application of a parsed file must fail.
type IniFault struct {
	Line    int    // 0 for an unknown section
	Section string // set for an unknown section
	What    string
}

// IniOutcome is the model's verdict on reading text into a declaration.
type IniOutcome struct {
	File        *IniFile
	Faults      []IniFault             // every independent fault (the reader reports one of them; the first syntax fault always first)
	Values      map[*decl.Opt][]string // texts assigned per option, in file order (only meaningful when Faults is empty)
	Sections    map[*decl.Opt]map[string]bool
	Unspecified map[*decl.Opt]bool
	MayFault    map[int]bool // lines the reader may, but need not, reject (a value given to a callback that takes none)
}

// ApplyIni interprets text against d. topGroup names the group of the parser's own options.
func ApplyIni(d *decl.Decl, text string, ignoreUnknown bool, topGroup string) *IniOutcome {
	out := &IniOutcome{File: ReadIni(text), Values: map[*decl.Opt][]string{}, Sections: map[*decl.Opt]map[string]bool{}, Unspecified: map[*decl.Opt]bool{}, MayFault: map[int]bool{}}
	f := out.File
	if f.SyntaxLine > 0 {
		out.Faults = []IniFault{{Line: f.SyntaxLine, What: f.SyntaxWhat}}
		return out
	}
	for _, sec := range f.Order {
		entries := f.Sections[sec]
		cands, ok := SectionOptions(d, sec, topGroup)
		if !ok {
			if !ignoreUnknown {
				out.Faults = append(out.Faults, IniFault{Section: sec, What: "unknown section"})
			}
			continue
		}
		for _, e := range entries {
			o := ResolveIniName(cands, e.Name)
			if o == nil {
				if !ignoreUnknown {
					out.Faults = append(out.Faults, IniFault{Line: e.Line, What: "unknown option"})
				}
				continue
			}
			val := e.Value
			if o.Type.IsMap() {
				if i := strings.Index(val, ":"); i >= 0 && i+1 < len(val) && val[i+1] == '"' {
					u, err := strconv.Unquote(val[i+1:])
					if err != nil {
						out.Faults = append(out.Faults, IniFault{Line: e.Line, What: "bad quoting of map value"})
						continue
					}
					val = val[:i+1] + u
				}
			}
			// convertibility
			switch {
			case o.Type.IsFlag() && val == "":
				// a flag without value: set
			case o.Type.IsFunc():
				out.Unspecified[o] = true
				if o.Type.IsFlag() {
					// func() given a value: rejecting the line and ignoring the value are both within the statement
					out.MayFault[e.Line] = true
				}
			default:
				text := val
				_, err := Apply(Empty(o.Type.RT), o.BaseN(), text)
				if o.Type.IsFlag() {
					// flags given a value: boolean text
					v := ConvScalar(boolElem(o), 10, text)
					err = nil
					if v.Class == MustReject {
						err = ErrReject
					} else if v.Class == Grey && !v.HasValue {
						err = ErrGrey
					}
				}
				if len(o.Choices) > 0 {
					found := false
					for _, c := range o.Choices {
						if c == text {
							found = true
						}
					}
					if !found {
						err = ErrReject
					}
				}
				if err == ErrReject {
					out.Faults = append(out.Faults, IniFault{Line: e.Line, What: "unconvertible value"})
					continue
				}
				if err == ErrGrey {
					out.Unspecified[o] = true
				}
			}
			out.Values[o] = append(out.Values[o], val)
			if out.Sections[o] == nil {
				out.Sections[o] = map[string]bool{}
			}
			out.Sections[o][sec] = true
		}
	}
	return out
}

func boolElem(o *decl.Opt) reflect.Type {
	rt := o.Type.RT
	for rt.Kind() == reflect.Slice || rt.Kind() == reflect.Ptr {
		rt = rt.Elem()
	}
	return rt
}

// IniValue folds the assigned texts into the value the option must hold after a successful read.
func IniValue(o *decl.Opt, texts []string) (reflect.Value, bool) {
	cur := Empty(o.Type.RT)
	for _, t := range texts {
		if o.Type.IsFlag() {
			b := true
			if t != "" {
				v := ConvScalar(boolElem(o), 10, t)
				if !v.HasValue {
					return cur, false
				}
				b = v.Value.Bool()
			}
			switch o.Type.RT.Kind() {
			case reflect.Bool:
				cur = reflect.ValueOf(b)
			case reflect.Slice:
				cur = reflect.Append(cur, reflect.ValueOf(b))
			case reflect.Ptr:
				cur = reflect.ValueOf(&b)
			}
			continue
		}
		nv, err := Apply(cur, o.BaseN(), t)
		if err != nil {
			return cur, false
		}
		cur = nv
	}
	return cur, true
}
