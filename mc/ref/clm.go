package ref

import (
	"fmt"
	"reflect"
	"sort"
	"strconv"
	"strings"
	"unicode/utf8"

	flags "github.com/jessevdk/go-flags"

	"verif/mc/decl"
)

// The command-line reference model (CLM): a specification-level interpreter of
// an argument vector against a declaration, written from the package
// documentation and the property statements.

// HandlerMode is how the harness' UnknownOptionHandler behaves.
type HandlerMode int

const (
	NoHandler       HandlerMode = iota
	HandlerKeep                 // returns the arguments unchanged
	HandlerDropNext             // drops the next unconsumed argument (if any)
	HandlerDropAll              // consumes every remaining argument: returns a nil slice
	HandlerInsert               // puts the token "ins" in front
	HandlerError                // returns an error
)

// Config is the environment of one parse.
type Config struct {
	D       *decl.Decl
	Handler HandlerMode
	Env     map[string]string
	// Supplied: options that an earlier source (an INI file read before or during the parse) has provided a value for.
	Supplied map[*decl.Opt]bool
	// Prefix: argv is an unfinished command line (completion): no end-of-line checks, and an
	// argument-taking option at the very end is recorded as pending instead of being a fault.
	Prefix bool
	// Held: options that an earlier parse on the same parser gave an explicit value; the field still holds it (the value
	// given here) and, as the earlier occurrence keeps defaults from being applied, it stays unless the option occurs again.
	Held map[*decl.Opt]reflect.Value
}

// Fault is one reason to reject.
type Fault struct {
	Type  flags.ErrorType
	Raw   bool              // the library returns a foreign (non-*flags.Error) error for this cause by design
	Opt   *decl.Opt         // option concerned, if any
	Names []string          // names the message must mention (required faults)
	Not   []string          // names the message must not mention
	Token string            // offending token
	At    int               // index in argv of the offending token (-1: after the last token)
	Span  int               // number of argv tokens the faulty unit occupies
	Loose []flags.ErrorType // other types acceptable for this very cause
}

// Occ is one occurrence of an option.
type Occ struct {
	Arg  *string // nil: flag occurrence, or bare occurrence of an optional-argument option
	Bare bool
}

// HandlerCall is one expected call of the unknown-option handler.
type HandlerCall struct {
	Name    string
	Arg     *string
	Tail    []string
	Cluster bool     // the name argument is not asserted for clusters, except that it must mention every character of Unknown
	Unknown []string // cluster: its characters, from the first unknown one on, that name no option in scope
}

// Fate of one argv token (conservation bookkeeping).
type Fate int

const (
	FUnseen Fate = iota
	FOption
	FOptArg
	FCommand
	FPositional
	FTerminator
	FRest
	FDropped // removed by the handler (HandlerDropNext)
)

// Result is what the model says about one argument vector.
type Result struct {
	Fault        *Fault // first fault in documented processing order (nil = success)
	Rest         []string
	Chain        []*decl.Cmd
	Occs         map[*decl.Opt][]Occ
	Pos          map[*decl.PosArg][]string
	HandlerCalls []HandlerCall
	Fates        []Fate
	Grey         bool     // a conversion the specification does not decide was needed
	Unspecified  []string // observables the model declines to predict
	PassThrough  bool     // rest's first element arrived by pass-through rather than as a command-position word
	Help         bool
	States       []string           // canonical state after every token (explorer statistics)
	Executed     *decl.Cmd          // innermost command, when the parse is clean (nil chain -> Top)
	Murky        map[*decl.Opt]bool // options whose occurrence count the specification leaves open on this vector

	// context after the last token (prefix mode)
	Cur        *decl.Cmd
	Queue      []*decl.PosArg
	Short      map[string]*decl.Opt
	Long       map[string]*decl.Opt
	PendingOpt *decl.Opt
	Terminated bool
	Clean      bool
}

type clm struct {
	cfg   *Config
	d     *decl.Decl
	argv  []string
	args  []string // remaining tokens
	idx   []int    // argv index of each remaining token (-1 for inserted)
	res   *Result
	cur   *decl.Cmd
	queue []*decl.PosArg
	short map[string]*decl.Opt
	long  map[string]*decl.Opt
	help  *decl.Opt
}

var helpOpt = &decl.Opt{Field: "ShowHelp", Short: "h", Long: "help", LongNS: "help", Type: &decl.Type{Name: "func() error", RT: reflect.TypeOf(func() error { return nil })}, ID: "<help>"}

func (m *clm) opt(o flags.Options) bool { return m.d.Options&o != 0 }

// IsOptionToken: "-x..." with x != '-', or "--x..." with x != '-'.
func IsOptionToken(t string) bool {
	if len(t) > 1 && t[0] == '-' && t[1] != '-' {
		return true
	}
	return len(t) > 2 && t[0] == '-' && t[1] == '-' && t[2] != '-'
}

// IsNegativeNumberToken: what the library documents as "a negative number": dash + decimal digit.
func IsNegativeNumberToken(t string) bool {
	return len(t) > 1 && t[0] == '-' && t[1] >= '0' && t[1] <= '9'
}

func (m *clm) rescope() {
	m.short, m.long = map[string]*decl.Opt{}, map[string]*decl.Opt{}
	var chain []*decl.Cmd
	for c := m.cur; c != nil; c = c.Parent {
		chain = append([]*decl.Cmd{c}, chain...)
	}
	for _, c := range chain {
		for _, o := range c.AllOpts() {
			if o.Short != "" {
				m.short[o.Short] = o
			}
			if o.Long != "" {
				m.long[o.LongNS] = o
			}
		}
	}
	if m.opt(flags.HelpFlag) {
		m.short["h"], m.long["help"] = helpOpt, helpOpt
	}
}

func (m *clm) enter(c *decl.Cmd) {
	m.cur = c
	m.queue = append([]*decl.PosArg{}, c.Pos...)
	m.rescope()
}

func (m *clm) pop() (string, int) {
	t, i := m.args[0], m.idx[0]
	m.args, m.idx = m.args[1:], m.idx[1:]
	return t, i
}

func (m *clm) fate(i int, f Fate) {
	if i >= 0 {
		m.res.Fates[i] = f
	}
}

func (m *clm) fault(f *Fault) {
	if m.res.Fault == nil {
		m.res.Fault = f
	}
}

// addArg: positionals first, then remaining arguments. Returns false on a conversion fault.
func (m *clm) addArg(t string, i int, passthrough bool) bool {
	if len(m.queue) > 0 {
		a := m.queue[0]
		if a.Type.IsSlice() {
			v := ConvScalar(a.Type.RT.Elem(), a.BaseN(), t)
			if v.Class == Grey {
				m.res.Grey = true
			}
			if v.Class == MustReject {
				m.fault(&Fault{Raw: true, Token: t, At: i, Span: 1, Loose: []flags.ErrorType{flags.ErrMarshal}})
				return false
			}
		} else if a.Type.IsMap() {
			// a map positional takes one key:value token and leaves the queue like any non-slice field
			if _, err := Apply(Empty(a.Type.RT), a.BaseN(), t); err == ErrGrey {
				m.res.Grey = true
			} else if err == ErrReject {
				m.fault(&Fault{Raw: true, Token: t, At: i, Span: 1, Loose: []flags.ErrorType{flags.ErrMarshal}})
				return false
			}
			m.queue = m.queue[1:]
		} else {
			v := ConvScalar(a.Type.RT, a.BaseN(), t)
			if v.Class == Grey {
				m.res.Grey = true
			}
			if v.Class == MustReject {
				m.fault(&Fault{Raw: true, Token: t, At: i, Span: 1, Loose: []flags.ErrorType{flags.ErrMarshal}})
				return false
			}
			m.queue = m.queue[1:]
		}
		m.res.Pos[a] = append(m.res.Pos[a], t)
		m.fate(i, FPositional)
		return true
	}
	if len(m.res.Rest) == 0 {
		m.res.PassThrough = passthrough
	}
	m.res.Rest = append(m.res.Rest, t)
	m.fate(i, FRest)
	return true
}

func unquoteIfQuoted(s string) (string, bool) {
	if len(s) == 0 || s[0] != '"' {
		return s, true
	}
	u, err := strconv.Unquote(s)
	if err != nil {
		return s, false
	}
	return u, true
}

// occur records one occurrence of o with the given argument text (nil = none).
// It returns false when the occurrence is a fault.
func (m *clm) occur(o *decl.Opt, arg *string, at, span int, tok string) bool {
	if o == helpOpt {
		m.res.Help = true
		m.fault(&Fault{Type: flags.ErrHelp, Opt: o, Token: tok, At: at, Span: span})
		return false
	}
	if arg != nil {
		a := *arg
		if o.Unquote != "false" {
			u, ok := unquoteIfQuoted(a)
			if !ok {
				m.fault(&Fault{Type: flags.ErrMarshal, Opt: o, Token: tok, At: at, Span: span})
				return false
			}
			a = u
		}
		if len(o.Choices) > 0 {
			found := false
			for _, c := range o.Choices {
				if c == a {
					found = true
				}
			}
			if !found {
				m.fault(&Fault{Type: flags.ErrInvalidChoice, Opt: o, Token: tok, At: at, Span: span, Names: o.Choices})
				return false
			}
		}
		// convertibility
		switch {
		case o.Type.IsFunc():
			in := o.Type.RT.In(0)
			v := ConvScalar(in, o.BaseN(), a)
			if v.Class == Grey {
				m.res.Grey = true
			}
			if v.Class == MustReject {
				m.fault(&Fault{Type: flags.ErrMarshal, Opt: o, Token: tok, At: at, Span: span})
				return false
			}
			if o.Type == decl.TFuncIE && v.HasValue && v.Value.Int() == 13 {
				// the harness callback refuses 13: the call happens, its error fails the parse
				m.res.Occs[o] = append(m.res.Occs[o], Occ{Arg: &a})
				m.fault(&Fault{Type: flags.ErrMarshal, Opt: o, Token: tok, At: at, Span: span})
				return false
			}
		default:
			_, err := Apply(Empty(o.Type.RT), o.BaseN(), a)
			if err == ErrGrey {
				m.res.Grey = true
			}
			if err == ErrReject {
				m.fault(&Fault{Type: flags.ErrMarshal, Opt: o, Token: tok, At: at, Span: span})
				return false
			}
		}
		m.res.Occs[o] = append(m.res.Occs[o], Occ{Arg: &a})
		return true
	}
	if o.Type == decl.TFunc0E {
		// the harness callback of this type always returns an error: the call happens, its error fails the parse
		m.res.Occs[o] = append(m.res.Occs[o], Occ{})
		m.fault(&Fault{Type: flags.ErrMarshal, Opt: o, Token: tok, At: at, Span: span})
		return false
	}
	if len(o.Choices) > 0 && o.Type.IsFlag() {
		// a flag restricted to choices: the documentation does not say what that means
		m.res.Unspecified = append(m.res.Unspecified, "flag-with-choices")
	}
	m.res.Occs[o] = append(m.res.Occs[o], Occ{Bare: !o.Type.IsFlag()})
	return true
}

// takeOption handles option o found in token tok; inline is its attached
// argument (nil if none); mayTakeNext says whether a separate token may be its argument.
func (m *clm) takeOption(o *decl.Opt, inline *string, mayTakeNext bool, at int, tok string) bool {
	if o.Type.IsFlag() {
		if inline != nil {
			m.fault(&Fault{Type: flags.ErrNoArgumentForBool, Opt: o, Token: tok, At: at, Span: 1})
			return false
		}
		return m.occur(o, nil, at, 1, tok)
	}
	if inline != nil {
		return m.occur(o, inline, at, 1, tok)
	}
	if o.IsOptional() {
		if len(o.OptionalVal) > 0 {
			for _, ov := range o.OptionalVal {
				v := ov
				if _, err := Apply(Empty(o.Type.RT), o.BaseN(), v); err == ErrReject && !o.Type.IsFunc() {
					m.fault(&Fault{Type: flags.ErrMarshal, Opt: o, Token: tok, At: at, Span: 1})
					return false
				}
			}
		} else {
			m.res.Unspecified = append(m.res.Unspecified, "optional-without-value:"+o.ID)
		}
		if o.Type.IsMulti() {
			m.res.Unspecified = append(m.res.Unspecified, "multi-optional:"+o.ID)
		}
		return m.occur(o, nil, at, 1, tok)
	}
	if m.cfg.Prefix && mayTakeNext && len(m.args) == 0 {
		m.res.PendingOpt = o
		return true
	}
	if !mayTakeNext || len(m.args) == 0 {
		m.fault(&Fault{Type: flags.ErrExpectedArgument, Opt: o, Token: tok, At: at, Span: 1})
		return false
	}
	next, ni := m.pop()
	switch {
	case o.Type == decl.TPicky:
		if strings.HasPrefix(next, "no") {
			m.fault(&Fault{Type: flags.ErrExpectedArgument, Opt: o, Token: tok, At: at, Span: 1})
			return false
		}
	case IsOptionToken(next) && !(o.Type.IsSignedNumber() && IsNegativeNumberToken(next)):
		m.fault(&Fault{Type: flags.ErrExpectedArgument, Opt: o, Token: tok, At: at, Span: 1})
		return false
	}
	if m.opt(flags.PassDoubleDash) && next == "--" {
		m.fault(&Fault{Type: flags.ErrExpectedArgument, Opt: o, Token: tok, At: at, Span: 1})
		return false
	}
	m.fate(ni, FOptArg)
	return m.occur(o, &next, at, 2, tok)
}

// unknown applies the unknown-option policy; returns false when the parse fails.
func (m *clm) unknown(name string, inline *string, tok string, at int, cluster bool, faultName string) bool {
	switch {
	case m.opt(flags.IgnoreUnknown):
		return m.addArg(tok, at, true)
	case m.cfg.Handler != NoHandler:
		m.res.HandlerCalls = append(m.res.HandlerCalls, HandlerCall{Name: name, Arg: inline, Tail: append([]string{}, m.args...), Cluster: cluster})
		switch m.cfg.Handler {
		case HandlerDropNext:
			if len(m.args) > 0 {
				_, i := m.pop()
				m.fate(i, FDropped)
			}
		case HandlerDropAll:
			for len(m.args) > 0 {
				_, i := m.pop()
				m.fate(i, FDropped)
			}
		case HandlerInsert:
			m.args = append([]string{"ins"}, m.args...)
			m.idx = append([]int{-1}, m.idx...)
		case HandlerError:
			m.fault(&Fault{Raw: true, Token: tok, At: at, Span: 1})
			return false
		}
		return true
	}
	m.fault(&Fault{Type: flags.ErrUnknownFlag, Token: tok, At: at, Span: 1, Names: []string{faultName}})
	return false
}

func (m *clm) stepOption(tok string, at int) bool {
	m.fate(at, FOption)
	if strings.HasPrefix(tok, "--") {
		body := tok[2:]
		name, inline := body, (*string)(nil)
		if i := strings.Index(body, "="); i >= 0 {
			v := body[i+1:]
			name, inline = body[:i], &v
		}
		o := m.long[name]
		if o == nil {
			return m.unknown(name, inline, tok, at, false, name)
		}
		return m.takeOption(o, inline, true, at, tok)
	}
	body := tok[1:]
	r0, n0 := utf8.DecodeRuneInString(body)
	first := string(r0)
	if len(body) > n0 && body[n0] == '=' {
		// -x=V
		v := body[n0+1:]
		o := m.short[first]
		if o == nil {
			return m.unknown(first, &v, tok, at, false, first)
		}
		return m.takeOption(o, &v, false, at, tok)
	}
	if len(body) > n0 {
		if o := m.short[first]; o != nil && !o.Type.IsFlag() {
			// -xV: the first character names an argument-taking option
			v := body[n0:]
			return m.takeOption(o, &v, false, at, tok)
		}
	}
	// cluster of flags; only the last may take the next token
	var applied []*decl.Opt
	for i, r := range body {
		name := string(r)
		o := m.short[name]
		if o == nil {
			// flags of the cluster before the unknown character: whether they "occurred" is not specified
			for _, a := range applied {
				m.res.Murky[a] = true
			}
			ok := m.unknown(body, nil, tok, at, utf8.RuneCountInString(body) > 1, name)
			if n := len(m.res.HandlerCalls); n > 0 && m.cfg.Handler != NoHandler && !m.opt(flags.IgnoreUnknown) {
				for _, r2 := range body[i:] {
					if m.short[string(r2)] == nil && r2 != utf8.RuneError {
						m.res.HandlerCalls[n-1].Unknown = append(m.res.HandlerCalls[n-1].Unknown, string(r2))
					}
				}
			}
			return ok
		}
		applied = append(applied, o)
		last := i+utf8.RuneLen(r) == len(body)
		if !m.takeOption(o, nil, last, at, tok) {
			return false
		}
	}
	return true
}

func (m *clm) stepPlain(tok string, at int) (stop bool) {
	if m.opt(flags.PassAfterNonOption) && m.cur.Find(tok) == nil {
		if !m.addArg(tok, at, true) {
			return true
		}
		for len(m.args) > 0 {
			t, i := m.pop()
			if !m.addArg(t, i, true) {
				return true
			}
		}
		return true
	}
	if len(m.queue) > 0 {
		return !m.addArg(tok, at, false)
	}
	if len(m.cur.Cmds) > 0 && len(m.res.Rest) == 0 {
		if c := m.cur.Find(tok); c != nil {
			m.res.Chain = append(m.res.Chain, c)
			m.fate(at, FCommand)
			m.enter(c)
			return false
		}
		if !m.cur.SubOptional {
			m.addArg(tok, at, false)
			m.fault(&Fault{Type: flags.ErrUnknownCommand, Token: tok, At: at, Span: 1})
			return true
		}
	}
	return !m.addArg(tok, at, false)
}

func (m *clm) state() string {
	var b strings.Builder
	for _, c := range m.res.Chain {
		b.WriteString(c.Name + "/")
	}
	fmt.Fprintf(&b, "|q%d|r%d|", len(m.queue), len(m.res.Rest))
	var ids []string
	for o, occ := range m.res.Occs {
		ids = append(ids, fmt.Sprintf("%s*%d", o.ID, len(occ)))
	}
	sort.Strings(ids)
	b.WriteString(strings.Join(ids, ","))
	if m.res.Fault != nil {
		fmt.Fprintf(&b, "|F%d", m.res.Fault.Type)
	}
	return b.String()
}

// Run interprets argv.
func Run(cfg *Config, argv []string) *Result {
	m := &clm{cfg: cfg, d: cfg.D, argv: argv}
	m.res = &Result{Murky: map[*decl.Opt]bool{}, Occs: map[*decl.Opt][]Occ{}, Pos: map[*decl.PosArg][]string{}, Fates: make([]Fate, len(argv))}
	m.args = append([]string{}, argv...)
	m.idx = make([]int, len(argv))
	for i := range m.idx {
		m.idx[i] = i
	}
	m.enter(m.d.Top)
	m.res.States = append(m.res.States, m.state())
	for len(m.args) > 0 && m.res.Fault == nil {
		tok, at := m.pop()
		if m.opt(flags.PassDoubleDash) && tok == "--" {
			m.fate(at, FTerminator)
			m.res.Terminated = true
			for len(m.args) > 0 {
				t, i := m.pop()
				if !m.addArg(t, i, true) {
					break
				}
			}
			m.res.States = append(m.res.States, m.state())
			break
		}
		stop := false
		if IsOptionToken(tok) {
			stop = !m.stepOption(tok, at)
		} else {
			stop = m.stepPlain(tok, at)
		}
		m.res.States = append(m.res.States, m.state())
		if stop {
			break
		}
	}
	m.res.Cur, m.res.Queue, m.res.Short, m.res.Long = m.cur, m.queue, m.short, m.long
	if cfg.Prefix {
		return m.res
	}
	if m.res.Fault == nil || (m.res.Fault.Type == flags.ErrUnknownCommand && !m.res.Fault.Raw) {
		m.finish()
	}
	if m.res.Fault == nil {
		m.res.Clean = true
		m.res.Executed = m.cur
	}
	return m.res
}

// Values computes the value every option must end with (success case).
// unspecified lists options whose final value the model declines to predict.
func (r *Result) Values(cfg *Config) (vals map[*decl.Opt]reflect.Value, unspecified map[*decl.Opt]bool, fault *Fault) {
	vals = map[*decl.Opt]reflect.Value{}
	unspecified = map[*decl.Opt]bool{}
	for _, o := range cfg.D.EveryOpt() {
		if o.Type.IsFunc() {
			continue
		}
		occ := r.Occs[o]
		if len(occ) > 0 {
			cur := Empty(o.Type.RT)
			for _, oc := range occ {
				if oc.Arg == nil && !o.Type.IsFlag() {
					// bare occurrence of an optional-argument option: its optional value(s)
					if o.Type.IsMulti() || len(o.OptionalVal) == 0 {
						unspecified[o] = true
					}
					cur = Empty(o.Type.RT)
					for _, ov := range o.OptionalVal {
						nv, err := Apply(cur, o.BaseN(), ov)
						if err != nil {
							unspecified[o] = true
							break
						}
						cur = nv
					}
					continue
				}
				text := ""
				if oc.Arg != nil {
					text = *oc.Arg
				}
				if o.Type.IsFlag() {
					// a flag is true iff it occurred; []bool gets one true per occurrence
					switch o.Type.RT.Kind() {
					case reflect.Bool:
						cur = reflect.ValueOf(true)
					case reflect.Slice:
						cur = reflect.Append(cur, reflect.ValueOf(true))
					case reflect.Ptr:
						t := true
						cur = reflect.ValueOf(&t)
					}
					continue
				}
				nv, err := Apply(cur, o.BaseN(), text)
				if err != nil {
					unspecified[o] = true
					break
				}
				cur = nv
			}
			vals[o] = cur
			continue
		}
		// not on the command line: env, then default tags, then the initial value
		if hv, ok := cfg.Held[o]; ok {
			vals[o] = hv
			continue
		}
		var src []string
		has := false
		if o.EnvNS != "" {
			if v, ok := cfg.Env[o.EnvNS]; ok {
				has = true
				if o.EnvDelim != "" {
					src = strings.Split(v, o.EnvDelim)
				} else {
					src = []string{v}
				}
			}
		}
		if !has && len(o.Defaults) > 0 {
			src, has = o.Defaults, true
		}
		if has && len(src) > 0 {
			cur := Empty(o.Type.RT)
			for _, t := range src {
				nv, err := Apply(cur, o.BaseN(), t)
				if err == ErrGrey {
					unspecified[o] = true
					break
				}
				if err == ErrReject {
					if fault == nil {
						fault = &Fault{Type: flags.ErrMarshal, Opt: o, At: -1}
					}
					break
				}
				cur = nv
			}
			vals[o] = cur
			continue
		}
		if o.Initial != nil {
			vals[o] = reflect.ValueOf(o.Initial).Convert(o.Type.RT)
		} else {
			vals[o] = Empty(o.Type.RT)
		}
	}
	return
}

// finish: defaults, required options, positional counts, command requirement.
func (m *clm) finish() {
	pending := m.res.Fault // an unknown-command fault is decided here together with required options
	m.res.Fault = nil
	// default conversion faults anywhere in the tree
	_, _, df := m.res.Values(m.cfg)
	if df != nil {
		m.fault(df)
		return
	}
	// required options along the active chain
	var missing, supplied []string
	chain := append([]*decl.Cmd{m.d.Top}, m.res.Chain...)
	onChain := map[*decl.Cmd]bool{}
	for _, c := range chain {
		onChain[c] = true
	}
	for _, o := range m.d.EveryOpt() {
		if !o.IsRequired() {
			continue
		}
		if !onChain[o.Owner] {
			supplied = append(supplied, o.Marker()) // must not be demanded
			continue
		}
		if len(m.res.Occs[o]) > 0 || m.cfg.Supplied[o] {
			supplied = append(supplied, o.Marker())
			continue
		}
		_, envSet := m.cfg.Env[o.EnvNS]
		if len(o.Defaults) > 0 || (o.EnvNS != "" && envSet) {
			m.res.Unspecified = append(m.res.Unspecified, "required-with-default:"+o.ID)
			continue
		}
		missing = append(missing, o.Marker())
	}
	if len(missing) > 0 {
		m.fault(&Fault{Type: flags.ErrRequired, At: -1, Names: missing, Not: supplied})
		return
	}
	// positional count constraints of the innermost command
	var unmet, met []string
	for _, a := range m.cur.Pos {
		queued := false
		for _, qd := range m.queue {
			if qd == a {
				queued = true
			}
		}
		n := len(m.res.Pos[a])
		if a.Type.IsSlice() {
			lo, hi := -1, -1
			if a.Required != "" {
				lo = 1
				if i := strings.Index(a.Required, "-"); i >= 0 {
					if v, err := strconv.Atoi(a.Required[:i]); err == nil {
						lo = v
					}
					if v, err := strconv.Atoi(a.Required[i+1:]); err == nil {
						hi = v
					}
				} else if v, err := strconv.Atoi(a.Required); err == nil {
					lo = v
				}
			}
			if a.MaxAPI > 0 {
				hi = a.MaxAPI // set by the program; no minimum comes with it
			}
			if (lo >= 0 && n < lo) || (hi >= 0 && n > hi) {
				unmet = append(unmet, a.ShownName())
			} else {
				met = append(met, a.ShownName())
			}
			continue
		}
		req := m.cur.PosRequired != "" || m.cur.ArgsRequiredAPI || a.Required != ""
		if queued && req {
			unmet = append(unmet, a.ShownName())
		} else {
			met = append(met, a.ShownName())
		}
	}
	if len(unmet) > 0 {
		m.fault(&Fault{Type: flags.ErrRequired, At: -1, Names: unmet, Not: met})
		return
	}
	if pending != nil {
		m.fault(pending)
		return
	}
	if len(m.cur.Cmds) > 0 && !m.cur.SubOptional {
		if len(m.res.Rest) == 0 {
			m.fault(&Fault{Type: flags.ErrCommandRequired, At: -1})
		} else if m.res.PassThrough {
			m.fault(&Fault{Type: flags.ErrUnknownCommand, At: -1, Loose: []flags.ErrorType{flags.ErrCommandRequired}})
		} else {
			m.fault(&Fault{Type: flags.ErrUnknownCommand, At: -1})
		}
	}
}

// CheckInvariants asserts the model's own invariants on a result (the model is checked while it runs).
func (r *Result) CheckInvariants(argv []string) string {
	// conservation: every token has exactly one fate; rest = tokens with fate FRest (+ inserted ones), in order
	if r.Fault == nil {
		var rest []string
		for i, f := range r.Fates {
			if f == FUnseen {
				return fmt.Sprintf("token %d (%q) has no fate", i, argv[i])
			}
			if f == FRest {
				rest = append(rest, argv[i])
			}
		}
		j := 0
		for _, t := range r.Rest {
			if j < len(rest) && rest[j] == t {
				j++
			} else if t != "ins" {
				return fmt.Sprintf("rest %q not conserved (%q)", r.Rest, rest)
			}
		}
		if j != len(rest) {
			return fmt.Sprintf("rest %q lost tokens of %q", r.Rest, rest)
		}
		nc := 0
		for _, f := range r.Fates {
			if f == FCommand {
				nc++
			}
		}
		if nc != len(r.Chain) {
			return "chain grows only by command tokens"
		}
	}
	if r.Clean && r.Fault != nil {
		return "execute implies no fault"
	}
	return ""
}

// FaultSet returns the first fault of argv and then, repeatedly, the first fault of the vector with the
// previous faulty unit removed: every independent reason the vector gives for rejection (at most 4).
// No property fixes which of several simultaneous causes is reported.
func FaultSet(cfg *Config, argv []string) []*Fault {
	var out []*Fault
	cur := append([]string{}, argv...)
	for i := 0; i < 4; i++ {
		res := Run(cfg, cur)
		if res.Fault == nil {
			break
		}
		out = append(out, res.Fault)
		f := res.Fault
		if f.At < 0 || f.At >= len(cur) {
			break // end-of-line faults (required, command): nothing to remove
		}
		span := f.Span
		if span < 1 {
			span = 1
		}
		end := f.At + span
		if end > len(cur) {
			end = len(cur)
		}
		cur = append(append([]string{}, cur[:f.At]...), cur[end:]...)
	}
	return out
}
