// Package ref holds the reference models the checks compare the library with.
package ref

// Levenshtein is the textbook edit distance over characters (runes).
func Levenshtein(a, b string) int {
	s, t := []rune(a), []rune(b)
	prev := make([]int, len(t)+1)
	for j := range prev {
		prev[j] = j
	}
	for i := 1; i <= len(s); i++ {
		cur := make([]int, len(t)+1)
		cur[0] = i
		for j := 1; j <= len(t); j++ {
			cost := 1
			if s[i-1] == t[j-1] {
				cost = 0
			}
			cur[j] = min3(prev[j]+1, cur[j-1]+1, prev[j-1]+cost)
		}
		prev = cur
	}
	return prev[len(t)]
}

func min3(a, b, c int) int {
	if b < a {
		a = b
	}
	if c < a {
		a = c
	}
	return a
}
