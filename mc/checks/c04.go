package checks

import (
	"fmt"
	"os"
	"path/filepath"
	"strings"

	flags "github.com/jessevdk/go-flags"

	"verif/mc/decl"
	"verif/mc/explore"
	"verif/mc/ref"
)

// C04 — parsing is total, contained and typed.

type capture struct {
	out, err *os.File
}

var c04cap *capture

func (cp *capture) mark() (int64, int64) {
	a, _ := cp.out.Seek(0, 1)
	b, _ := cp.err.Seek(0, 1)
	return a, b
}

func (cp *capture) since(a, b int64) (string, string) {
	a2, b2 := cp.mark()
	rd := func(f *os.File, from, to int64) string {
		if to <= from {
			return ""
		}
		buf := make([]byte, to-from)
		f.ReadAt(buf, from)
		return string(buf)
	}
	so, se := rd(cp.out, a, a2), rd(cp.err, b, b2)
	if a2 > 1<<26 {
		cp.out.Truncate(0)
		cp.out.Seek(0, 0)
	}
	if b2 > 1<<26 {
		cp.err.Truncate(0)
		cp.err.Seek(0, 0)
	}
	return so, se
}

func c04Setup(thorough bool, scratch string) error {
	mk := func(name string) (*os.File, error) {
		return os.OpenFile(filepath.Join(scratch, fmt.Sprintf("%s-%d", name, os.Getpid())), os.O_RDWR|os.O_CREATE|os.O_TRUNC, 0600)
	}
	o, err := mk("stdout")
	if err != nil {
		return err
	}
	e, err := mk("stderr")
	if err != nil {
		return err
	}
	c04cap = &capture{o, e}
	os.Stdout, os.Stderr = o, e
	return nil
}

func c04Decl(variant int, opts flags.Options) *decl.Decl {
	top := &decl.Cmd{Name: "app", SubOptional: true, Opts: []*decl.Opt{
		{Field: "All", Short: "a", Long: "all", Type: decl.TBool},
		{Field: "Str", Short: "s", Long: "str", Type: decl.TString},
		{Field: "Int", Short: "i", Long: "int", Type: decl.TInt, Env: "C04_INT"},
		{Field: "Map", Short: "m", Long: "map", Type: decl.TMapSI},
		{Field: "List", Short: "l", Long: "list", Type: decl.TInts},
		{Field: "Cb", Short: "c", Long: "cb", Type: decl.TFunc0},
		{Field: "Kcb", Short: "k", Long: "kcb", Type: decl.TFuncS},
		{Field: "Ecb", Short: "e", Long: "ecb", Type: decl.TFuncIE},
		{Field: "Upper", Short: "U", Long: "upper", Type: decl.TUpper},
		{Field: "Picky", Short: "P", Long: "picky", Type: decl.TPicky},
		{Field: "Choice", Short: "C", Long: "choice", Type: decl.TString, Choices: []string{"x", "y"}, Env: "C04_CH"},
		{Field: "Opt", Short: "O", Long: "opt", Type: decl.TString, Optional: "yes", OptionalVal: []string{"ov"}},
		{Field: "Eacute", Short: "é", Long: "eacute", Type: decl.TBool},
		{Field: "Five", Short: "5", Long: "five", Type: decl.TBool},
		{Field: "BoolChoice", Short: "B", Long: "boolchoice", Type: decl.TBool, Choices: []string{"x"}},
		{Field: "Refuse", Short: "r", Long: "refuse", Type: decl.TFunc0E},
		// an optional argument whose optional-value the field type refuses
		{Field: "OptBad", Long: "optbad", Type: decl.TInt, Optional: "yes", OptionalVal: []string{"zz"}},
		// an Unmarshaler with a value receiver; an integer whose base is inferred from the prefix (base 0), holding a value already
		{Field: "Sink", Long: "sink", Type: decl.TSink},
		{Field: "Auto", Long: "auto", Type: decl.TInt, Base: "0", Initial: 5},
		// bases no numeral system has (every value given to them is refused; holding a value must not break other parses)
		{Field: "Odd", Long: "oddbase", Type: decl.TInt, Base: "99", Initial: 7},
		{Field: "One", Long: "unarybase", Type: decl.TUint8, Base: "1", Initial: uint8(200)},
		{Field: "NilCb", Long: "nilcb", Type: decl.TFuncS, NilFunc: true}, // a callback the program never assigned
		{Field: "VarCb", Long: "varcb", Type: decl.TFuncVar},              // a variadic callback
		{Field: "MapCh", Long: "mapchoice", Type: decl.TMapSS, Choices: []string{"k:a", "k:b"}},
	}}
	cmd := &decl.Cmd{Field: "Cmd", Name: "cmd", Opts: []*decl.Opt{{Field: "Z", Short: "z", Long: "zed", Type: decl.TBool}},
		Pos: []*decl.PosArg{{Field: "N", Type: decl.TInt}}}
	// a command whose only subcommand is hidden (and mandatory)
	dbg := &decl.Cmd{Field: "Dbg", Name: "dbg", Cmds: []*decl.Cmd{{Field: "Inner", Name: "inner", Hidden: true}}}
	top.Cmds = []*decl.Cmd{cmd, dbg}
	if variant == 2 {
		top.SubOptional = false // a command is required: unknown words reach the unknown-command diagnosis
		// ... where every visible name is compared with the word: one with a two-byte character in the middle, one ending in a three-byte character
		top.Cmds = append(top.Cmds, &decl.Cmd{Field: "Dem2", Name: "démarrer"}, &decl.Cmd{Field: "Jp", Name: "cm日"})
	}
	if variant == 3 {
		// built through the API: an executable command whose Execute returns an ErrHelp-typed error of its own
		top.Cmds = append(top.Cmds, &decl.Cmd{Field: "Usage", Name: "usage", Exec: true})
	}
	if variant == 1 {
		// a described command whose name is the longest in bytes but not in characters (help listing arithmetic)
		top.Cmds = append(top.Cmds, &decl.Cmd{Field: "Dem", Name: "démarrer", Desc: "start it"})
		top.Opts = append(top.Opts,
			&decl.Opt{Field: "Iface", Short: "I", Long: "iface", Type: decl.TIface},
			&decl.Opt{Field: "Array", Short: "A", Long: "array", Type: decl.TArray},
			&decl.Opt{Field: "Req", Short: "R", Long: "req", Type: decl.TString, Required: "yes"},
			&decl.Opt{Field: "PB", Short: "b", Long: "pbool", Type: decl.TPBool},
			&decl.Opt{Field: "MB", Short: "M", Long: "mapbool", Type: decl.TMapSB},
			&decl.Opt{Field: "MLS", Long: "levelkeys", Type: decl.TMapLS},
			&decl.Opt{Field: "MSL", Long: "levelvals", Type: decl.TMapSL},
			&decl.Opt{Field: "PIs", Long: "pints", Type: decl.TPInts},
		)
	}
	return (&decl.Decl{Top: top, Options: opts}).Finish()
}

var c04Bytes = []string{"-", "=", "a", "s", "x", "\"", "\\", "\xc3", "\xa9", ":", "5"}

var c04Tokens = []string{
	"", "-", "--", "---", "-a", "-s", "-sval", "-s=", "-s=v", "--str", "--str=", `--str="q"`, `--str="`, "-i", "-i5", "-i=x", "-5", "-i-5",
	"-m", "-mk:1", "-mk", "-mk:x", "-lx", "-c", "-c=1", "-k", "-e13", "-e12", "-Ubad", "-Uok", "-P", "nope", "-Cx", "-Cz", "-O", "-O=1",
	"-é", "-aé5", "-B", "--boolchoice", "--help", "-h", "--=x", "-=", `-"`, "cmd", "7", "w", "-z", "--all=1", "-a\xff", "\xff", "--unk", "-x",
	"-r", "--refuse", "-ar", "é1", "añadir", "日本語", "cmdé", "usage", "--optbad", "dbg", "--sink=x", "--nilcb=x", "--varcb=x", "--mapchoice=net", "--mapchoice=k:a",
	"--levelkeys=k:v", "--levelvals=k:v", "--pints=-3", "-v\x00", "--50%off",
	"x234567890123456789012345678901", "x2345678901234567890123456789012", "x23456789012345678901234567890123", // 31, 32, 33 characters
	"y234567890123456789012345678901234567890123456789012345678901234", "y2345678901234567890123456789012345678901234567890123456789012345", // 64, 65
}

func init() {
	cache := map[string]*decl.Decl{}
	flagBits := []flags.Options{flags.HelpFlag, flags.PassDoubleDash, flags.IgnoreUnknown, flags.PrintErrors, flags.PassAfterNonOption}
	body := func(c *explore.Ctx) {
		part := c.Choose(2)    // 0: one arbitrary byte string as a token; 1: vectors of pathological tokens
		variant := c.Choose(5) // declaration (4: the declaration of 3 with every option that needs no tag-only attribute handed over by (*Group).AddOption)
		added := variant == 4
		if added {
			variant = 3
		}
		base := c.Choose(2) // None | Default
		var opts flags.Options
		if base == 1 {
			opts = flags.Default
		}
		for _, fb := range flagBits {
			if c.Deviate(2) == 1 {
				opts ^= fb
			}
		}
		badEnvFirst := c.Deviate(2) == 1 // an earlier ParseArgs on the same parser failed because $C04_INT held an unconvertible value
		var argv []string
		if part == 0 {
			if (!c.Thorough && (variant == 1 || variant == 3 || badEnvFirst)) || added {
				c.Skip() // quick: the byte strings go through the first and third declaration on a fresh parser only
			}
			maxLen := 4
			if c.Thorough {
				maxLen = 5
			}
			pos := c.Choose(4)
			n := c.Choose(maxLen + 1)
			tok := ""
			for i := 0; i < n; i++ {
				tok += c04Bytes[c.Choose(len(c04Bytes))]
			}
			switch pos {
			case 0:
				argv = []string{tok}
			case 1:
				argv = []string{"-s", tok}
			case 2:
				argv = []string{"cmd", tok}
			case 3:
				argv = []string{"--", tok}
			}
		} else {
			maxDepth := 2
			if c.Thorough && (variant == 0 || variant == 2) && !badEnvFirst {
				maxDepth = 3 // thorough: vectors of three tokens on the first and third declaration, fresh parser
			}
			n := c.Choose(maxDepth + 1)
			for i := 0; i < n; i++ {
				argv = append(argv, c04Tokens[c.Choose(len(c04Tokens))])
			}
		}
		key := fmt.Sprintf("v%d/o%d", variant, opts)
		d := cache[key]
		if d == nil {
			d = c04Decl(variant, opts)
			cache[key] = d
		}
		c.Describe(func() interface{} {
			return map[string]interface{}{"declaration_variant": variant, "options_handed_over_with_AddOption": added, "options": optNames(opts), "argv": fmt.Sprintf("%q", argv), "earlier_parse_failed_on_bad_env": badEnvFirst}
		})
		cfg := &ref.Config{D: d}
		res := ref.Run(cfg, argv)
		recordStates(c, key, res, nil)
		var b *decl.Built
		if variant == 3 {
			if added {
				c.Hit("every-option-added-with-AddOption")
				b = d.BuildAdded()
			} else {
				b = d.BuildAPI()
			}
			for _, st := range b.Execs {
				st.Err = &flags.Error{Type: flags.ErrHelp, Message: "USAGE-OF-THE-COMMAND"}
			}
			if b.Err == nil {
				// one more option, of string type, handed to the library with (*Group).AddOption: it is never named on
				// the command line here, its presence alone must not break any parse
				var added string
				b.Parser.Command.Group.AddOption(&flags.Option{LongName: "added-with-addoption", Description: "added", Default: []string{"dd"}}, &added)
				var added2 int
				b.Parser.Command.Group.AddOption(&flags.Option{LongName: "added-without-default", Description: "added"}, &added2)

				c.Hit("option-added-with-AddOption")
			}
		} else {
			b = d.BuildTags()
		}
		if b.Err != nil {
			c.Fail("setup-error", b.Err.Error())
			return
		}
		// what a ParseArgs call may have written, given what it returned
		checkWrites := func(label string, err error, so, se string) {
			if opts&flags.PrintErrors == 0 {
				if so != "" || se != "" {
					c.Fail(label+"writes-without-PrintErrors", map[string]interface{}{"stdout": so, "stderr": se})
				}
				return
			}
			c.Hit("print-errors")
			wantOut, wantErr := "", ""
			if err != nil {
				if fe, ok := err.(*flags.Error); ok && fe.Type == flags.ErrHelp {
					wantOut = err.Error() + "\n"
					c.Hit("help-printed")
				} else {
					wantErr = err.Error() + "\n"
				}
			}
			if so != wantOut {
				c.Fail(label+"stdout-content|"+errType(err), map[string]interface{}{"want": wantOut, "got": so})
			}
			if se != wantErr {
				c.Fail(label+"stderr-content|"+errType(err), map[string]interface{}{"want": wantErr, "got": se})
			}
		}
		if badEnvFirst {
			envKey, envVal, wantType := "C04_INT", "not-a-number", flags.ErrMarshal
			if len(argv)%2 == 1 {
				envKey, envVal, wantType = "C04_CH", "neither-x-nor-y", flags.ErrInvalidChoice // a value outside the option's choices
			}
			os.Setenv(envKey, envVal)
			var w0, w1 int64
			if c04cap != nil {
				w0, w1 = c04cap.mark()
			}
			wr := runParser(b, cfg, nil, runOpts{})
			os.Unsetenv(envKey)
			if c04cap != nil && wr.Panic == nil {
				wso, wse := c04cap.since(w0, w1)
				checkWrites("bad-environment-default|", wr.Err, wso, wse)
			}
			if wr.Panic != nil {
				c.Fail("panic|"+wr.PanicSite, fmt.Sprint(wr.Panic))
				return
			}
			// (a declaration with a required option reports that one instead: both causes are present, no precedence is defined)
			if fe, ok := wr.Err.(*flags.Error); !ok || (fe.Type != wantType && fe.Type != flags.ErrRequired) {
				c.Fail("bad-environment-default-wrong-type|want-"+wantType.String()+"|"+errType(wr.Err), fmt.Sprint(wr.Err))
				return
			}
			rezero(b)
			c.Hit("after-failed-parse")
		}
		var m0, m1 int64
		if c04cap != nil {
			m0, m1 = c04cap.mark()
		}
		rr := runParser(b, cfg, argv, runOpts{})
		so, se := "", ""
		if c04cap != nil {
			so, se = c04cap.since(m0, m1)
		}
		if rr.Panic != nil {
			c.Fail("panic|"+rr.PanicSite, fmt.Sprint(rr.Panic))
			return
		}
		c.Outcome(key, errType(rr.Err), fmt.Sprint(len(so) > 0), fmt.Sprint(len(se) > 0), faultNameOrOK(res))
		c.Hit("err:" + errType(rr.Err))
		// containment
		checkWrites("", rr.Err, so, se)
		// typing
		if rr.Err == nil {
			return
		}
		fe, isFE := rr.Err.(*flags.Error)
		if !isFE {
			// the only foreign errors by design here: a positional argument that does not convert
			if res.Fault != nil && res.Fault.Raw {
				c.Hit("foreign-positional-error")
				return
			}
			c.Fail("untyped-rejection", map[string]interface{}{"error": fmt.Sprintf("%T: %v", rr.Err, rr.Err), "model": faultNameOrOK(res)})
			return
		}
		if variant == 1 || res.Grey || len(res.Unspecified) > 0 || res.Fault == nil {
			return
		}
		if ok, why := faultMatches(rr.Err, res.Fault); !ok {
			// a vector with several independent faults: any of them may be the one reported
			for _, f := range ref.FaultSet(cfg, argv) {
				if ok2, _ := faultMatches(rr.Err, f); ok2 {
					c.Hit("multi-fault-vector")
					return
				}
			}
			c.Fail("wrong-error-type|want-"+faultName(res.Fault)+"|got-"+fe.Type.String(), map[string]interface{}{"why": why, "message": fe.Message})
		}
	}
	explore.Register(&explore.Check{
		ID:         "C04",
		Level:      "exploration",
		ShardDepth: 10,
		Body:       body,
		Setup:      c04Setup,
		DevBound:   func(bool) int { return 2 },
		Rule: "four declarations (the API-built one also with every option handed over by (*Group).AddOption instead of a struct tag, for the token vectors) covering every option kind (flags, scalars, map, slice, four callback signatures incl. one that always returns an error, Unmarshaler, ValueValidator, choices on a string and on a bool flag, optional argument, non-ASCII and digit short names, " +
			"interface-, array-, pointer-to-bool typed fields, a required option, a command with an int positional, an optional-argument option whose optional-value does not convert, a command whose only subcommand is hidden, an Unmarshaler with a value receiver, an integer with base 0 holding a value, a callback option left nil; the third declaration makes the command mandatory so that unknown words reach the unknown-command diagnosis (words of 31..33 and 64..65 characters included); the fourth is built through the API, has an executable command whose Execute returns an ErrHelp-typed error of its own, and two options (a string with a default, an int without) handed over with (*Group).AddOption; maps with named string key / value types and []*int are among the option types); option sets: None and Default with up to 2 of the 5 flags toggled (32 sets); as one more deviation the same parser first fails a parse because an environment default does not convert or is outside the option's choices (must be ErrMarshal / ErrInvalidChoice, printed exactly as PrintErrors prescribes) and is then used again; inputs: (i) every byte string of length <= 4 (quick) / <= 5 (thorough) " +
			"over {- = a s x \" \\ 0xC3 0xA9 : 5} as a token alone, after -s, after a command word, after --; (ii) every vector of <= 2 tokens (thorough: <= 3 on the first and third declaration) over 78 pathological tokens; oracle: returns normally, error nil or typed as the CLM's fault says, " +
			"stdout/stderr deltas exactly as PrintErrors prescribes; distinct = distinct (declaration, option set, error class, wrote stdout?, wrote stderr?, model fault)",
		Assumptions:  []string{"os.Stdout / os.Stderr are swapped for files per worker process and offset deltas read per leaf", "declarations reflect.StructOf cannot build (unexported fields in positional structs) are outside the space"},
		RequiredHits: []string{"every-option-added-with-AddOption", "print-errors", "help-printed", "foreign-positional-error", "err:unknown flag", "err:expected argument", "err:marshal", "err:no argument for bool", "err:invalid choice", "err:help", "err:required", "err:ok", "option-added-with-AddOption"},
		Bound:        [2]string{"byte strings <= 4, token vectors <= 2, <= 2 option-flag deviations", "byte strings <= 5, token vectors <= 3 (on two of the four declarations), <= 2 option-flag deviations"},
		BudgetS:      [2]int{170, 1500},
	})
}

func faultNameOrOK(res *ref.Result) string {
	if res.Fault == nil {
		return "ok"
	}
	return faultName(res.Fault)
}

func optNames(o flags.Options) string {
	var n []string
	for _, p := range []struct {
		f flags.Options
		s string
	}{{flags.HelpFlag, "HelpFlag"}, {flags.PassDoubleDash, "PassDoubleDash"}, {flags.IgnoreUnknown, "IgnoreUnknown"}, {flags.PrintErrors, "PrintErrors"}, {flags.PassAfterNonOption, "PassAfterNonOption"}} {
		if o&p.f != 0 {
			n = append(n, p.s)
		}
	}
	if len(n) == 0 {
		return "None"
	}
	return strings.Join(n, "|")
}
