package checks

import (
	"fmt"
	"strings"

	flags "github.com/jessevdk/go-flags"

	"verif/mc/decl"
	"verif/mc/explore"
	"verif/mc/ref"
)

// C09 — commands run exactly once and only after a fully successful parse.

var c09Extra = [][]string{{"--unk"}, {"-p=1"}, {"--help"}, {"-h"}, {"w1"}, {"7"}, {"--flaga=x"}, {"--"}, {"-hz"}}

var c09Cache = map[string]*treeDecl{}
var c09Shapes3, c09Shapes4 = treeShapes(3), treeShapes(4)

func init() {
	body := func(c *explore.Ctx) {
		shapes := c09Shapes3
		if c.Thorough {
			shapes = c09Shapes4
		}
		si := c.Choose(len(shapes))
		par := shapes[si]
		nn := len(par)
		om := c.Deviate(1 << uint(nn+1))
		rq := c.Deviate(nn + 1)
		ps := c.Deviate(nn + 1)
		hm := c.Deviate(1 << uint(nn))
		// 1: IgnoreUnknown set as well; 2: the parser's flag sits in a group added after the commands and after a parse selecting each of them;
		// 3: an int option of the parser takes its default from an environment variable that holds an unconvertible value (every vector is then faulty)
		// 4: the parser has an argument-taking option -o/--out: a missing argument (at the end, or for -o in the middle of a cluster) is a fault like any other
		// 5: the same parser has already parsed the path to its last command and is re-used as it is (nothing is required in these trees)
		// 6: an unknown-option handler is installed that hands the arguments back unchanged: an unknown option is then no fault, every other fault still is
		extra := c.Deviate(7)
		mc := c.Choose(5) // Execute, Execute+error, CommandHandler, CommandHandler+error, completion mode
		mode, inject := mc/2, mc%2 == 1
		key := fmt.Sprintf("s%d/o%d/r%d/p%d/h%d/e%d", si, om, rq, ps, hm, extra)
		td, seen := c09Cache[key]
		if !seen {
			if len(c09Cache) > 200 {
				c09Cache = map[string]*treeDecl{}
			}
			if extra == 1 || extra == 3 {
				ps = 3 // IgnoreUnknown comes with the optional int positional on the third node (or the first, in smaller trees)
				if nn < 3 {
					ps = 1
				}
			}
			td = buildTree(par, 0, om, 0, false, true, rq, ps, hm, extra == 2, extra == 3, map[bool]int{true: 2}[extra == 4])
			if td != nil && extra == 1 {
				td.d.Options = flags.HelpFlag | flags.PassDoubleDash | flags.IgnoreUnknown
			}
			c09Cache[key] = td
		}
		if td == nil {
			c.Skip()
		}
		if td.d.Options == 0 {
			td.d.Options = flags.HelpFlag | flags.PassDoubleDash
		}
		units := append(append([][]string{}, td.units...), c09Extra...)
		if extra == 4 {
			units = append(units, []string{"-o"}, []string{"-pop", "w1"}, []string{"-po", "w1"})
			c.Hit("argument-taking-option")
		}
		maxDepth := 3
		if (c.Thorough && nn <= 3) || nn <= 2 {
			maxDepth = 4
		}
		n := c.Choose(maxDepth + 1)
		var argv []string
		for i := 0; i < n; i++ {
			argv = append(argv, units[c.Choose(len(units))]...)
		}
		modeName := []string{"Execute", "CommandHandler", "completion"}[mode]
		c.Describe(func() interface{} {
			return map[string]interface{}{"tree": describeTree(td.d.Top), "mode": modeName, "command_returns_error": inject, "argv": argv, "extra(5=parser re-used as it is,6=unknown-option handler)": extra}
		})
		cfg := &ref.Config{D: td.d}
		if extra == 6 {
			cfg.Handler = ref.HandlerKeep
			c.Hit("unknown-option-handler")
		}
		if mode == 2 {
			cfg.Env = map[string]string{"GO_FLAGS_COMPLETION": []string{"1", "verbose", "yes"}[len(argv)%3]} // any non-empty value means completion
		} else if extra == 3 {
			cfg.Env = map[string]string{"C09_ENV": "1,zz,3"} // split on env-delim: the middle value does not convert
			c.Hit("bad-environment-default")
		}
		res := ref.Run(cfg, argv)
		recordStates(c, key, res, nil)
		var b *decl.Built
		if extra == 2 {
			b = td.d.BuildAPIWith(func(hb *decl.Built) {
				for _, cm := range td.cmds {
					var path []string
					for x := cm; x != nil && x.Parent != nil; x = x.Parent {
						path = append([]string{x.Name}, path...)
					}
					hb.Parser.ParseArgs(path)
				}
				for _, fc := range hb.Cmds {
					fc.Active = nil
				}
				rezero(hb)
			})
		} else {
			b = td.d.BuildAPI()
		}
		if b.Err != nil {
			c.Fail("setup-error", b.Err.Error())
			return
		}
		if inject {
			for _, st := range b.Execs {
				st.Err = errExec
			}
		}
		if extra == 5 {
			c.Hit("parser-re-used")
			var path []string
			for x := td.cmds[len(td.cmds)-1]; x != nil && x.Parent != nil; x = x.Parent {
				path = append([]string{x.Name}, path...)
			}
			if wr := runParser(b, &ref.Config{D: td.d}, path, runOpts{}); wr.Panic != nil {
				c.Fail("panic|"+wr.PanicSite, fmt.Sprint("earlier parse ", path, ": ", wr.Panic))
				return
			}
			rezero(b)
		}
		completions := 0
		if mode == 2 {
			b.Parser.CompletionHandler = func(items []flags.Completion) { completions++ }
		}
		rr := runParser(b, cfg, argv, runOpts{CommandHandler: mode == 1})
		if rr.Panic != nil {
			c.Fail("panic|"+rr.PanicSite, fmt.Sprint(rr.Panic))
			return
		}
		calls := append(append([]decl.ExecCall{}, b.ExecLog...), rr.CmdCalls...)
		c.Outcome(key, modeName, errType(rr.Err), fmt.Sprint(len(calls)))
		if mode == 2 {
			c.Hit("completion-mode")
			if len(calls) != 0 {
				c.Fail("executed-in-completion-mode", calls)
			}
			if completions != 1 {
				c.Fail("completion-handler-calls", completions)
			}
			return
		}
		// implementation-side consistency, independent of the model: an error that does not come from
		// the command itself means nothing may have run
		if rr.Err != nil && rr.Err != errExec && len(calls) != 0 {
			c.Fail("executed-although-parse-failed|"+errType(rr.Err), map[string]interface{}{"calls": calls, "error": fmt.Sprint(rr.Err)})
			return
		}
		if len(res.Unspecified) > 0 || res.Grey {
			return
		}
		if res.Fault != nil {
			c.Hit("fault|" + faultName(res.Fault))
			if len(calls) != 0 {
				c.Fail("executed-despite|"+faultName(res.Fault), map[string]interface{}{"calls": calls})
			}
			if rr.Err == nil {
				c.Fail("fault-not-reported|"+faultName(res.Fault), nil)
			}
			return
		}
		// clean parse: exactly one invocation, innermost command, remaining arguments, error passed through
		want := 1
		if mode == 0 && len(res.Chain) == 0 {
			want = 0 // no command is active: there is nothing to Execute (a CommandHandler is still called, with nil)
		}
		c.Hit(fmt.Sprintf("clean|%s|calls=%d", modeName, want))
		if len(calls) != want {
			c.Fail(fmt.Sprintf("invocation-count|%s|want-%d-got-%d", modeName, want, len(calls)), map[string]interface{}{"calls": calls, "error": fmt.Sprint(rr.Err)})
			return
		}
		if want == 0 {
			if rr.Err != nil {
				c.Fail("valid-vector-rejected|"+errType(rr.Err), fmt.Sprint(rr.Err))
			}
			return
		}
		call := calls[0]
		wantID := ""
		if len(res.Chain) > 0 {
			wantID = res.Executed.ID
		}
		if call.Cmd != wantID {
			c.Fail("wrong-command-invoked|"+modeName, map[string]interface{}{"want": wantID, "got": call.Cmd})
		}
		if !sameStrings(call.Args, res.Rest) {
			c.Fail("command-arguments|"+modeName, map[string]interface{}{"want": res.Rest, "got": call.Args})
		}
		if inject && len(res.Chain) > 0 {
			c.Hit("error-passed-through")
			if rr.Err != errExec {
				c.Fail("command-error-not-returned-unchanged|"+modeName, fmt.Sprint(rr.Err))
			}
		} else {
			if rr.Err != nil {
				c.Fail("valid-vector-rejected|"+errType(rr.Err), fmt.Sprint(rr.Err))
			} else if !sameStrings(rr.Rest, call.Args) {
				c.Fail("returned-rest-differs-from-command-arguments", map[string]interface{}{"returned": rr.Rest, "command_saw": call.Args})
			}
		}
	}
	explore.Register(&explore.Check{
		ID:         "C09",
		Level:      "model_checking",
		ShardDepth: 7,
		Body:       body,
		DevBound:   func(th bool) int { return 1 },
		Rule: "every command tree with <= 3 (quick) / <= 4 (thorough) commands and depth <= 3 with an executable command at every node, HelpFlag set; one deviation from the plain tree at a time: " +
			"subcommands-optional on any subset of nodes incl. the parser, a required option (hidden as well on even nodes) on any node, required positionals on any node, any subset of commands hidden, IgnoreUnknown set in addition (together with an int positional), the parser's flag in a group added after the commands and after a parse that selected each of them, an []int option of the parser whose environment default (three values, env-delim) does not convert in the middle (together with an optional int positional), an argument-taking option -o/--out of the parser with the extra tokens {-o, -pop w1, -po w1}: its argument missing at the end of the vector or because -o is not the last letter of its cluster, a parser that has already parsed the path to its last command and is re-used as it is, an unknown-option handler that hands the arguments back unchanged (unknown options are then no fault, every other fault still is); " +
			"x {Execute, CommandHandler, completion mode} x {command succeeds, command returns an error} x every sequence of <= 3 tokens (<= 4 on trees of <= 2 commands quick / <= 3 commands thorough) over command names, every node's flag and the fault tokens " +
			"{unknown option, argument to a flag, --help, -h, -h followed by an unknown character in one cluster, unknown word, a word and a number (the required positional is an int on some nodes: conversion faults, also after the -- terminator)}; this contains every single fault at every position of every valid vector of that length; oracle = CLM verdict vs call log",
		Assumptions:  []string{"when no command is active there is nothing to Execute; a CommandHandler is still called once with a nil command (as its documentation says)"},
		RequiredHits: []string{"completion-mode", "clean|Execute|calls=1", "clean|CommandHandler|calls=1", "clean|Execute|calls=0", "error-passed-through", "fault|help", "fault|unknown flag", "fault|required", "fault|command required", "fault|unknown command", "fault|no argument for bool", "fault|expected argument", "bad-environment-default", "argument-taking-option", "parser-re-used", "unknown-option-handler"},
		Bound:        [2]string{"token sequences <= 3, trees <= 3 commands, <= 1 declaration deviation", "token sequences <= 4 (trees <= 3 commands) / <= 3 (4 commands), <= 1 declaration deviation"},
		BudgetS:      [2]int{170, 1500},
	})
}

func faultName(f *ref.Fault) string {
	if f.Raw {
		return "raw"
	}
	return strings.ToLower(f.Type.String())
}
