package checks

import (
	"bytes"
	"fmt"
	"math"
	"reflect"
	"strings"
	"time"
	"unicode"
	"unicode/utf8"

	flags "github.com/jessevdk/go-flags"

	"verif/mc/decl"
	"verif/mc/explore"
	"verif/mc/ref"
)

// C12 — INI write/read round trip.

var c12Alpha = []string{" ", "\t", "\"", "\\", "a", "\n", "\r", "é", "\xff", "=", ":", ";", "#", "[", "]", " ", ","}

type c12Field struct {
	o    *decl.Opt
	vals []interface{} // interesting values (part B)
}

type c12Decl struct {
	d      *decl.Decl
	s      *decl.Opt // string
	dflt   *decl.Opt // string with a default tag
	l      *decl.Opt // []string
	m      *decl.Opt // map[string]string
	typed  []c12Field
	hidden []*decl.Opt
}

var c12Cache = map[string]*c12Decl{}

func f32(f float32) float32 { return f }

func c12Get(shape int, desc int) *c12Decl {
	key := fmt.Sprint(shape, desc)
	if cd := c12Cache[key]; cd != nil {
		return cd
	}
	description := []string{"", "one line", "first line\nsecond line"}[desc]
	cd := &c12Decl{}
	mk := func(field, long, short string, t *decl.Type) *decl.Opt {
		return &decl.Opt{Field: field, Long: long, Short: short, Type: t, Desc: description}
	}
	cd.s = mk("S", "str", "s", decl.TString)
	cd.dflt = mk("D", "dflt", "", decl.TString)
	cd.dflt.Defaults = []string{"dflt"}
	cd.l = mk("L", "list", "l", decl.TStrings)
	cd.m = mk("M", "map", "m", decl.TMapSS)
	cd.m.IniName = "mapping"
	basic := []*decl.Opt{cd.s, cd.dflt, cd.l, cd.m}
	ty := func(field string, t *decl.Type, base string, vals ...interface{}) *decl.Opt {
		o := mk(field, strings.ToLower(field), "", t)
		o.Base = base
		cd.typed = append(cd.typed, c12Field{o, vals})
		return o
	}
	var typed []*decl.Opt
	typed = append(typed,
		ty("I", decl.TInt, "", 0, 5, -7, math.MaxInt64, math.MinInt64),
		ty("I2", decl.TInt64, "2", int64(5), int64(-5), int64(math.MaxInt64), int64(math.MinInt64)),
		ty("I16", decl.TInt32, "16", int32(255), int32(-255), int32(math.MaxInt32), int32(math.MinInt32)),
		ty("I36", decl.TInt8, "36", int8(35), int8(-128), int8(127)),
		ty("U", decl.TUint64, "", uint64(0), uint64(5), uint64(math.MaxUint64)),
		ty("U16", decl.TUint16, "16", uint16(255), uint16(65535)),
		ty("U8", decl.TUint8, "", uint8(200), uint8(255)),
		ty("F32", decl.TFloat32, "", f32(0.1), f32(math.MaxFloat32), f32(1e-45), float32(math.Inf(-1)), float32(math.Copysign(0, -1)), float32(math.NaN()), f32(16777217)),
		ty("F64", decl.TFloat64, "", 0.1, math.MaxFloat64, 4.9e-324, math.Inf(1), math.Copysign(0, -1), math.NaN(), 1e23),
		ty("B", decl.TBool, "", true),
		ty("Bs", decl.TBools, "", []bool{true}, []bool{true, false, true}, []bool{false}),
		ty("Du", decl.TDuration, "", time.Duration(0), 90*time.Minute, -time.Nanosecond, time.Duration(math.MaxInt64), time.Duration(math.MinInt64)),
		ty("PI", decl.TPInt, "", ip(0), ip(5), ip(-7)),
		ty("PS", decl.TPString, "", sp(""), sp("x"), sp(" edge ")),
		ty("Up", decl.TUpper, "", decl.Upper{S: "ABC"}, decl.Upper{S: ""}),
		ty("Is", decl.TInts, "", []int{1}, []int{-1, 0, 1}),
		ty("MI", decl.TMapSI, "", map[string]int{"k": 1}, map[string]int{"k": -1, "j": 2, "a b": 3}),
		ty("MIS", decl.TMapIS, "", map[int]string{1: "x"}, map[int]string{-1: "", 2: "y z"}),
		ty("MB", decl.TMapSB, "", map[string]bool{"k": true}, map[string]bool{"k": false, "j": true}),
		ty("U8s", decl.TUint8s, "16", []uint8{255, 0, 16}),
		ty("MIS16", decl.TMapIS, "16", map[int]string{31: "x"}, map[int]string{2: "a", 16: "b", 26: "c", -56: "d"}),
		ty("MU16", decl.TMapU16U8, "36", map[uint16]uint8{35: 35}, map[uint16]uint8{1295: 255, 36: 1}),
		ty("Gr", decl.TGrade, "", decl.Grade(1), decl.Grade(-3)),
		ty("Grs", decl.TGrades, "", []decl.Grade{1, 2}),
		ty("PL", decl.TPLevel, "", decl.PLevel(1), decl.PLevel(0)),
		ty("PLs", decl.TPLevels, "", []decl.PLevel{1, 0}, []decl.PLevel{1}),
		ty("I0", decl.TInt, "0", 64, -255, 10), // base 0: the reader infers the base from the prefix, the writer has to write something it reads back
		ty("U0", decl.TUint16, "0", uint16(10), uint16(255), uint16(8)),
		ty("PSs", decl.TPStrs, "", []*string{sp("x")}, []*string{sp(" edge "), sp("")}, []*string{sp("a;b"), sp("\"q")}),
	)
	// optional-argument options: an empty value is a value, not "no argument"
	optS := ty("OptS", decl.TString, "", "", "x")
	optS.Optional, optS.OptionalVal = "yes", []string{"ov"}
	optL := ty("OptL", decl.TStrings, "", []string{""}, []string{"", "a"}, []string{"b"})
	optL.Optional, optL.OptionalVal = "yes", []string{"ov"}
	typed = append(typed, optS, optL)
	// a slice with two default tags: a single element that merely looks like the rendered defaults is not the default
	two := ty("Two", decl.TStrings, "", []string{"alpha, beta"}, []string{"alpha", "beta"}, []string{"beta", "alpha"}, []string{"alpha"})
	two.Defaults = []string{"alpha", "beta"}
	typed = append(typed, two)
	// a default the program assigns to Option.Default (no default tag): a value equal to it may be left out, the empty string may not
	pd := ty("PD", decl.TString, "", "", "pv", "x")
	pd.DefaultsAPI = []string{"pv"}
	typed = append(typed, pd)
	hid := mk("Hid", "hid", "", decl.TString)
	hid.Hidden = "yes"
	noini := mk("NoIni", "noini", "", decl.TString)
	noini.NoIni = "yes"
	cb := mk("Cb", "cb", "", decl.TFuncS)
	cd.hidden = []*decl.Opt{hid, noini}
	extra := []*decl.Opt{hid, noini, cb}
	top := &decl.Cmd{Name: "app", SubOptional: true}
	all := append(append(append([]*decl.Opt{}, basic...), typed...), extra...)
	switch shape {
	case 0: // flat
		top.Opts = all
	case 1: // nested groups with namespaces; the innermost group repeats a field name of the parser's own group
		top.Opts = basic[:2]
		again := mk("S", "inner-s", "", decl.TString)
		top.Groups = []*decl.Group{{Field: "G1", Name: "Group One", Namespace: "g1", Opts: basic[2:],
			Groups: []*decl.Group{{Field: "G2", Name: "Group Two", Namespace: "g2", Opts: append(append(typed, extra...), again)}}}}
	case 2: // command with a group
		top.Opts = basic[:1]
		top.Cmds = []*decl.Cmd{{Field: "Cmd", Name: "cmd", Opts: basic[1:], Groups: []*decl.Group{{Field: "CG", Name: "Cmd Group", Opts: append(typed, extra...)}}}}
	case 4: // three levels of commands (sections named by the full dotted path)
		top.Opts = basic[:1]
		leaf := &decl.Cmd{Field: "Leaf", Name: "leaf", Opts: append(append([]*decl.Opt{}, basic[1:]...), typed...), Groups: []*decl.Group{{Field: "LG", Name: "Leaf Group", Opts: extra}}}
		mid := &decl.Cmd{Field: "Mid", Name: "mid.v2", SubOptional: true, Cmds: []*decl.Cmd{leaf}} // a dot in a command's own name
		top.Cmds = []*decl.Cmd{{Field: "Cmd", Name: "cmd", SubOptional: true, Cmds: []*decl.Cmd{mid}}}
	case 3: // sub-subcommand
		top.Opts = basic[:1]
		sub := &decl.Cmd{Field: "Sub", Name: "sub", Opts: append(append([]*decl.Opt{}, basic[1:]...), typed...), Groups: []*decl.Group{{Field: "SG", Name: "Sub Group", Opts: extra}}}
		top.Cmds = []*decl.Cmd{{Field: "Cmd", Name: "cmd", SubOptional: true, Cmds: []*decl.Cmd{sub}}}
	}
	cd.d = (&decl.Decl{Top: top}).Finish()
	c12Cache[key] = cd
	return cd
}

func sp(s string) *string { return &s }

func c12ValueClass(s string) string {
	switch {
	case s == "":
		return "empty"
	case strings.TrimSpace(s) != s:
		return "edge-blank"
	case strings.HasPrefix(s, `"`):
		return "leading-quote"
	case strings.ContainsAny(s, "\n\r"):
		return "line-break-inside"
	case !utf8.ValidString(s):
		return "invalid-utf8"
	}
	for _, r := range s {
		if !unicode.IsPrint(r) {
			return "non-printable"
		}
	}
	return "plain"
}

// c12KeyAllowed: map keys the key:value syntax can express (as the property states).
func c12KeyAllowed(k string) bool {
	return k != "" && !strings.Contains(k, ":") && strings.TrimSpace(k) == k
}

var c12ReadTwice bool // per leaf

// roundTrip writes b1's values and reads them into a fresh parser; returns the second parser or an error description.
func c12RoundTrip(cd *c12Decl, b1 *decl.Built, wopts flags.IniOptions) (b2 *decl.Built, text string, what string, detail interface{}) {
	defer func() {
		if r := recover(); r != nil {
			what, detail = "panic|"+explore.PanicSite(), fmt.Sprint(r)
		}
	}()
	var buf bytes.Buffer
	flags.NewIniParser(b1.Parser).Write(&buf, wopts)
	text = buf.String()
	b2 = cd.d.BuildTags()
	ip := flags.NewIniParser(b2.Parser)
	if err := ip.Parse(bytes.NewReader(buf.Bytes())); err != nil {
		return b2, text, "written-file-unreadable", fmt.Sprint(err)
	}
	if c12ReadTwice {
		// the program reads the same file once more with the same IniParser (a reload): that changes nothing
		if err := ip.Parse(bytes.NewReader(buf.Bytes())); err != nil {
			return b2, text, "written-file-unreadable|second-read-with-the-same-IniParser", fmt.Sprint(err)
		}
	}
	if _, err := b2.Parser.ParseArgs(nil); err != nil {
		return b2, text, "defaults-after-read-fail", fmt.Sprint(err)
	}
	return b2, text, "", nil
}

func init() {
	valsQ := append([]string{""}, allStrings(c12Alpha, 1, 2)...)
	valsT := append([]string{""}, allStrings(c12Alpha, 1, 3)...)
	long := []string{strings.Repeat("x", 4095), strings.Repeat("x", 4096), strings.Repeat("é", 2049), strings.Repeat("y z", 3400), strings.Repeat("k", 65536), strings.Repeat("m n", 30000)}
	body := func(c *explore.Ctx) {
		part := c.Choose(2)
		shape := c.Choose(5)
		desc := c.Choose(3)
		wo := c.Choose(8)
		state := c.Choose(3) // 0 fresh; 1 after reading quoted values; 2 after reading entries keyed by other names
		var wopts flags.IniOptions
		if wo&1 != 0 {
			wopts |= flags.IniIncludeDefaults
		}
		if wo&2 != 0 {
			wopts |= flags.IniCommentDefaults
		}
		if wo&4 != 0 {
			wopts |= flags.IniIncludeComments
		}
		if part == 1 && shape == 0 && desc == 0 && state == 0 {
			c12AddedOptions(c, wopts) // runs beside the regular leaf of this cell
		}
		c12ReadTwice = (shape+desc+wo)%2 == 1
		if c12ReadTwice {
			c.Hit("file-read-twice")
		}
		cd := c12Get(shape, desc)
		b1 := cd.d.BuildTags()
		if b1.Err != nil {
			c.Fail("setup-error", b1.Err.Error())
			return
		}
		if _, err := b1.Parser.ParseArgs(nil); err != nil {
			c.Fail("setup-parse", err.Error())
			return
		}
		var target *decl.Opt
		usage, class := "", ""
		var setv reflect.Value
		if part == 0 {
			vals := valsQ
			if c.Thorough {
				vals = valsT
			}
			use := c.Choose(6)
			vi := c.Choose(len(vals) + len(long))
			var s string
			if vi < len(vals) {
				s = vals[vi]
			} else {
				s = long[vi-len(vals)]
			}
			class = c12ValueClass(s)
			switch use {
			case 0:
				target, usage, setv = cd.s, "string", reflect.ValueOf(s)
			case 1:
				target, usage, setv = cd.l, "slice-element", reflect.ValueOf([]string{"first", s})
			case 2:
				target, usage, setv = cd.l, "only-slice-element", reflect.ValueOf([]string{s})
			case 3:
				target, usage, setv = cd.m, "map-value", reflect.ValueOf(map[string]string{"k": s, "j": "other"})
			case 4:
				if !c12KeyAllowed(s) {
					c.Skip()
				}
				target, usage, setv = cd.m, "map-key", reflect.ValueOf(map[string]string{s: "v", "zz": "w"})
			case 5:
				target, usage, setv = cd.dflt, "string-with-default", reflect.ValueOf(s)
			}
			c.Describe(func() interface{} {
				return map[string]interface{}{"part": "strings", "usage": usage, "value": fmt.Sprintf("%.60q", s), "shape": shape, "description_lines": desc, "write_options": wo, "writer_state": state}
			})
		} else {
			fi := c.Choose(len(cd.typed) + 1)
			if fi == len(cd.typed) {
				usage, class = "all-fields", "typed"
			} else {
				f := cd.typed[fi]
				v := f.vals[c.Choose(len(f.vals))]
				target, usage, class = f.o, "typed:"+f.o.Type.Name, "typed"
				if f.o.Base != "" {
					usage += "/base" + f.o.Base
				}
				setv = reflect.ValueOf(v)
			}
			c.Describe(func() interface{} {
				sv := "every field"
				if target != nil {
					sv = ref.Show(setv)
				}
				return map[string]interface{}{"part": "typed", "usage": usage, "value": sv, "shape": shape, "description_lines": desc, "write_options": wo, "writer_state": state}
			})
		}
		// writer state: the option was read from an INI file before (quoted / under another of its names)
		if state != 0 && target != nil && !target.Type.IsMap() {
			name := target.Field
			if state == 2 {
				name = target.LongNS
			}
			pre := ""
			switch {
			case target.Type.IsFlag():
				pre = "true"
			case target.Type.RT.Kind() == reflect.String || target.Type == decl.TStrings || target.Type == decl.TPString || target.Type == decl.TUpper:
				pre = "pre"
			case target.Type == decl.TDuration:
				pre = "1s"
			case target.Type == decl.TPLevel || target.Type == decl.TPLevels:
				pre = "low"
			default:
				pre = "1"
			}
			if state == 1 {
				pre = `"` + pre + `"`
			}
			sect := c12Section(target)
			txt := fmt.Sprintf("[%s]\n%s = %s\n", sect, name, pre)
			if err := flags.NewIniParser(b1.Parser).Parse(strings.NewReader(txt)); err != nil {
				c.Fail("harness-pre-read-failed", fmt.Sprint(txt, err))
				return
			}
		} else if state != 0 {
			c.Skip()
		}
		if target != nil {
			b1.Vals[target].Set(setv.Convert(target.Type.RT))
		} else {
			for _, f := range cd.typed {
				b1.Vals[f.o].Set(reflect.ValueOf(f.vals[len(f.vals)-1]).Convert(f.o.Type.RT))
			}
		}
		b2, text, what, detail := c12RoundTrip(cd, b1, wopts)
		c.Outcome(usage, class, fmt.Sprint(wo, state, shape), what)
		c.Hit("usage:" + usage)
		if state != 0 {
			c.Hit("writer-state")
		}
		sig := func(w string) string {
			return w + "|" + usage + "|" + class
		}
		if what != "" {
			c.Fail(sig(what), map[string]interface{}{"detail": detail, "written": c14Abbrev(text)})
			return
		}
		for _, o := range cd.d.EveryOpt() {
			if o.Type.IsFunc() || o.IsHidden() || o.NoIni != "" {
				continue
			}
			if !ref.SameValue(b1.Vals[o], b2.Vals[o]) && !c12BothZero(b1.Vals[o], b2.Vals[o]) {
				u := usage
				if o != target && target != nil {
					u = "bystander-of-" + usage
				}
				c.Fail("value-not-reproduced|"+u+"|"+class, map[string]interface{}{"option": o.ID, "written_value": ref.Show(b1.Vals[o]), "read_back": ref.Show(b2.Vals[o]), "written": c14Abbrev(text)})
				return
			}
		}
	}
	explore.Register(&explore.Check{
		ID:         "C12",
		Level:      "exploration",
		ShardDepth: 5,
		Body:       body,
		Rule: "(A) every string of length <= 2 (quick) / <= 3 (thorough) over {space tab \" \\ a LF CR é 0xFF = : ; # [ ] NBSP ,} plus 4095/4096/4098/10200/65536/90000-byte strings, used as a string option, a slice element (alone / second), a map value, a map key (only keys the key:value syntax can express), a string with a default tag; " +
			"(B) 32 typed fields (incl. a signed and an unsigned integer with base 0, a type whose Marshaler and Unmarshaler have pointer receivers, scalar and slice, a slice of string pointers with awkward elements, two optional-argument options holding empty strings, integer-keyed maps with base 16 / 36, a slice with two default tags, a named integer type with a String method but no marshalling of its own, and a slice of it) (ints in bases 2/10/16/36 at their limits, uints, float32/64 incl. max, denormal, +-Inf, -0, NaN, bool, []bool, Duration limits, *int, *string, Marshaler/Unmarshaler, []int, map[string]int, map[int]string, map[string]bool, []uint8 base 16) each with its interesting values, and all fields set at once; " +
			"x 5 declaration shapes (flat, nested namespaced groups, command with group, sub-subcommand, command three levels deep with a group; with ini-name, hidden, no-ini and callback options) x description {none, one line, two lines} x all 8 IniOptions x writer state {fresh, option previously read quoted, previously read under its long name}; " +
			"(also a string whose default the program assigns to Option.Default, holding that default, the empty string or another value); in half of the cells the written file is read a second time with the same IniParser before the comparison; oracle: Write -> Parse into a fresh parser over the same declaration -> ParseArgs(nil): every written option equal (NaN-aware); distinct = distinct (usage, value class, options/state/shape, result)",
		Assumptions:  []string{"values are stored into the option struct after an initial ParseArgs(nil), as a program does before saving its configuration", "map keys restricted exactly as the statement restricts them"},
		RequiredHits: []string{"usage:string", "usage:map-key", "usage:map-value", "usage:slice-element", "usage:all-fields", "usage:typed:float32", "usage:typed:int8/base36", "writer-state", "file-read-twice"},
		Bound:        [2]string{"strings <= 2", "strings <= 3"},
		BudgetS:      [2]int{170, 1500},
	})
}

// c12Section names the section that addresses the option's group.
func c12Section(o *decl.Opt) string {
	var path []string
	for c := o.Owner; c != nil && c.Parent != nil; c = c.Parent {
		path = append([]string{c.Name}, path...)
	}
	if o.Group != nil {
		path = append(path, o.Group.Name)
	} else if len(path) == 0 {
		return "Application Options"
	}
	return strings.Join(path, ".")
}

// c12BothZero: -0 and +0 are equal values (an option holding -0 equals its default 0 and is omitted by the writer).
func c12BothZero(a, b reflect.Value) bool {
	if a.Kind() != reflect.Float32 && a.Kind() != reflect.Float64 {
		return false
	}
	return a.Float() == 0 && b.Float() == 0
}

// c12AddedOptions: options handed over with (*Group).AddOption (a string and an int in the parser's option group) are
// written under a name the reader understands and come back with their values.
func c12AddedOptions(c *explore.Ctx, wopts flags.IniOptions) {
	type base struct {
		A string `long:"a"`
	}
	root := c.Bool() // the options are added to the parser's own top group (the one that holds "Application Options") instead
	mk := func() (*flags.Parser, *string, *int) {
		p := flags.NewParser(&base{}, flags.None)
		g := p.Command.Group.Find("Application Options")
		if root {
			g = p.Command.Group
		}
		s, n := new(string), new(int)
		g.AddOption(&flags.Option{LongName: "added-str", Description: "a string added with AddOption"}, s)
		g.AddOption(&flags.Option{LongName: "added-int", ShortName: 'i'}, n)
		return p, s, n
	}
	vals := []string{"x", " edge ", "", `"q`, "a;b"}
	v := vals[c.Choose(len(vals))]
	var text string
	var err error
	var s2 *string
	var n2 *int
	func() {
		defer func() {
			if r := recover(); r != nil {
				c.Fail("panic|"+explore.PanicSite(), map[string]interface{}{"panic": fmt.Sprint(r), "note": "options added with (*Group).AddOption"})
			}
		}()
		p1, s1, n1 := mk()
		*s1, *n1 = v, 7
		var buf bytes.Buffer
		flags.NewIniParser(p1).Write(&buf, wopts)
		text = buf.String()
		var p2 *flags.Parser
		p2, s2, n2 = mk()
		err = flags.NewIniParser(p2).Parse(strings.NewReader(text))
	}()
	if c.Failed() {
		return
	}
	c.Hit("options-added-with-AddOption")
	where := "added-option"
	if root {
		where = "added-to-the-parser's-top-group"
	}
	if err != nil {
		c.Fail("written-file-unreadable|"+where+"|"+c12ValueClass(v), map[string]interface{}{"file": text, "error": err.Error()})
		return
	}
	if *s2 != v || *n2 != 7 {
		c.Fail("value-not-reproduced|"+where+"|"+c12ValueClass(v), map[string]interface{}{"file": text, "want": []interface{}{v, 7}, "got": []interface{}{*s2, *n2}})
	}
}
