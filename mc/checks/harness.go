package checks

import (
	"errors"
	"fmt"
	"os"
	"reflect"
	"strconv"
	"strings"

	flags "github.com/jessevdk/go-flags"

	"verif/mc/decl"
	"verif/mc/explore"
	"verif/mc/ref"
)

func init() {
	ref.CustomUnmarshal["Upper"] = func(s string) (interface{}, error) {
		if s == "bad" {
			return nil, errors.New("bad")
		}
		return decl.Upper{S: strings.ToUpper(s)}, nil
	}
	ref.CustomUnmarshal["Shout"] = func(s string) (interface{}, error) { return decl.Shout(strings.ToUpper(s)), nil }
	ref.CustomUnmarshal["OnOff"] = func(s string) (interface{}, error) {
		switch s {
		case "on":
			return decl.OnOff(true), nil
		case "off":
			return decl.OnOff(false), nil
		}
		return nil, errors.New("neither on nor off")
	}
	ref.CustomUnmarshal["PLevel"] = func(s string) (interface{}, error) {
		switch s {
		case "low":
			return decl.PLevel(0), nil
		case "high":
			return decl.PLevel(1), nil
		}
		return nil, errors.New("neither low nor high")
	}
	ref.CustomUnmarshal["Sink"] = func(s string) (interface{}, error) {
		if s == "bad" {
			return nil, errors.New("bad")
		}
		return decl.Sink{}, nil // a value receiver cannot change the field
	}
	ref.CustomAppend["CSV"] = func(cur reflect.Value, s string) (reflect.Value, error) {
		if s == "bad" {
			return cur, errors.New("bad")
		}
		out := append(decl.CSV{}, cur.Interface().(decl.CSV)...)
		out = append(out, strings.Split(s, ",")...)
		return reflect.ValueOf(out), nil
	}
	os.Unsetenv("GO_FLAGS_COMPLETION")
}

// realRun is what one execution of the real parser showed.
type realRun struct {
	Rest         []string
	Err          error
	Panic        interface{}
	PanicSite    string
	HandlerCalls []ref.HandlerCall
	CmdCalls     []decl.ExecCall
}

var errHandler = errors.New("handler says no")
var errExec = errors.New("execute says no")

type runOpts struct {
	CommandHandler bool // install a CommandHandler that logs and then calls Execute
}

// runParser runs ParseArgs on a built declaration under the model's environment.
func runParser(b *decl.Built, cfg *ref.Config, argv []string, ro runOpts) (rr *realRun) {
	rr = &realRun{}
	for k, v := range cfg.Env {
		os.Setenv(k, v)
	}
	defer func() {
		for k := range cfg.Env {
			os.Unsetenv(k)
		}
	}()
	p := b.Parser
	if cfg.Handler != ref.NoHandler {
		p.UnknownOptionHandler = func(option string, arg flags.SplitArgument, args []string) ([]string, error) {
			hc := ref.HandlerCall{Name: option, Tail: append([]string{}, args...)}
			if v, ok := arg.Value(); ok {
				hc.Arg = &v
			}
			rr.HandlerCalls = append(rr.HandlerCalls, hc)
			switch cfg.Handler {
			case ref.HandlerDropNext:
				if len(args) > 0 {
					return args[1:], nil
				}
			case ref.HandlerDropAll:
				return nil, nil
			case ref.HandlerInsert:
				return append([]string{"ins"}, args...), nil
			case ref.HandlerError:
				return nil, errHandler
			}
			return args, nil
		}
	}
	if ro.CommandHandler {
		p.CommandHandler = func(cmd flags.Commander, args []string) error {
			id := ""
			if cmd != nil {
				id = execID(b, cmd)
			}
			rr.CmdCalls = append(rr.CmdCalls, decl.ExecCall{Via: "handler", Cmd: id, Args: append([]string{}, args...)})
			if cmd != nil && id != "" {
				if st := b.Execs[b.ExecIDs[id]]; st != nil {
					return st.Err
				}
			}
			return nil
		}
	}
	defer func() {
		if r := recover(); r != nil {
			rr.Panic = r
			rr.PanicSite = panicSite()
		}
	}()
	in := append([]string{}, argv...)
	rr.Rest, rr.Err = p.ParseArgs(in)
	return rr
}

func execID(b *decl.Built, cmd interface{}) string {
	for c, fc := range b.Cmds {
		if b.Execs[c] != nil && fc != nil {
			if dataOf(b, c) == cmd {
				return c.ID
			}
		}
	}
	return "?"
}

func dataOf(b *decl.Built, c *decl.Cmd) interface{} { return b.ExecData[c] }

// faultMatches compares the returned error with the model's fault.
func faultMatches(err error, f *ref.Fault) (bool, string) {
	if err == nil {
		return false, "parse succeeded"
	}
	fe, isFE := err.(*flags.Error)
	if f.Raw {
		if !isFE {
			return true, ""
		}
		for _, t := range f.Loose {
			if fe.Type == t {
				return true, ""
			}
		}
		return false, "typed as " + fe.Type.String()
	}
	if !isFE {
		return false, fmt.Sprintf("foreign error %T: %v", err, err)
	}
	ok := fe.Type == f.Type
	for _, t := range f.Loose {
		if fe.Type == t {
			ok = true
		}
	}
	if !ok {
		return false, "typed as " + fe.Type.String()
	}
	return true, ""
}

func errType(err error) string {
	if err == nil {
		return "ok"
	}
	if fe, ok := err.(*flags.Error); ok {
		return fe.Type.String()
	}
	return fmt.Sprintf("raw:%T", err)
}

// expectedCalls: the argument texts a callback option must have seen, in order.
func expectedCalls(o *decl.Opt, occ []ref.Occ) []string {
	var out []string
	if len(occ) == 0 {
		// not on the command line: called once per default value, if any
		for _, t := range o.Defaults {
			if o.Type == decl.TFuncIE {
				n, _ := strconv.ParseInt(t, o.BaseN(), 64)
				t = strconv.Itoa(int(n))
			}
			out = append(out, t)
		}
		return out
	}
	for _, oc := range occ {
		if o.Type == decl.TFunc0 || o.Type == decl.TFunc0E {
			out = append(out, "")
			continue
		}
		texts := []string{}
		if oc.Arg != nil {
			texts = append(texts, *oc.Arg)
		} else {
			texts = append(texts, o.OptionalVal...)
		}
		for _, t := range texts {
			if o.Type == decl.TFuncIE {
				n, _ := strconv.ParseInt(t, o.BaseN(), 64)
				out = append(out, strconv.Itoa(int(n)))
			} else {
				out = append(out, t)
			}
		}
	}
	return out
}

// compareOptionValues asserts C01's observable on a successful parse.
func compareOptionValues(c *explore.Ctx, b *decl.Built, cfg *ref.Config, res *ref.Result, sigPrefix string) {
	vals, unspec, _ := res.Values(cfg)
	for _, o := range cfg.D.EveryOpt() {
		if unspec[o] || res.Murky[o] {
			continue
		}
		if o.Type.IsFunc() {
			want := expectedCalls(o, res.Occs[o])
			if _, held := cfg.Held[o]; held && len(res.Occs[o]) == 0 {
				want = nil // an earlier parse on this parser called it explicitly: its default is not applied any more
			}
			got := *b.Calls[o]
			if strings.Join(want, "\x00") != strings.Join(got, "\x00") || len(want) != len(got) {
				c.Fail(sigPrefix+"callback-log|"+o.Type.Name, map[string]interface{}{"option": o.ID, "want_calls": want, "got_calls": got})
			}
			continue
		}
		want, ok := vals[o]
		if !ok {
			continue
		}
		got := b.Vals[o]
		if !ref.SameValue(want, got) {
			c.Fail(sigPrefix+"value|"+o.Type.Name+"|"+occClass(res.Occs[o]), map[string]interface{}{"option": o.ID, "want": ref.Show(want), "got": ref.Show(got)})
		}
	}
	if w := b.PlainTouched(); w != "" {
		c.Fail(sigPrefix+"plain-field-modified", w)
	}
}

func occClass(occ []ref.Occ) string {
	switch len(occ) {
	case 0:
		return "absent"
	case 1:
		return "once"
	}
	return "repeated"
}

// comparePositionals asserts C10's observable.
func comparePositionals(c *explore.Ctx, b *decl.Built, res *ref.Result, sigPrefix string) {
	for a, v := range b.PosVals {
		texts := res.Pos[a]
		var want reflect.Value
		if a.Type.IsSlice() {
			want = reflect.Zero(a.Type.RT)
			bad := false
			for _, t := range texts {
				cv := ref.ConvScalar(a.Type.RT.Elem(), a.BaseN(), t)
				if !cv.HasValue {
					bad = true
					break
				}
				want = reflect.Append(want, cv.Value)
			}
			if bad {
				continue
			}
		} else if a.Type.IsMap() {
			want = reflect.Zero(a.Type.RT)
			if len(texts) > 0 {
				nv, err := ref.Apply(ref.Empty(a.Type.RT), a.BaseN(), texts[len(texts)-1])
				if err != nil {
					continue
				}
				want = nv
			}
		} else {
			if len(texts) == 0 {
				want = reflect.Zero(a.Type.RT)
			} else {
				cv := ref.ConvScalar(a.Type.RT, a.BaseN(), texts[len(texts)-1])
				if !cv.HasValue {
					continue
				}
				want = cv.Value
			}
		}
		if !ref.SameValue(want, v) {
			c.Fail(sigPrefix+"positional|"+a.Type.Name, map[string]interface{}{"arg": a.ID, "want": ref.Show(want), "got": ref.Show(v)})
		}
	}
}

func sameStrings(a, b []string) bool {
	if len(a) != len(b) {
		return false
	}
	for i := range a {
		if a[i] != b[i] {
			return false
		}
	}
	return true
}

func chainNames(cs []*decl.Cmd) []string {
	var out []string
	for _, c := range cs {
		out = append(out, c.Name)
	}
	return out
}

// recordStates feeds the model's state sequence into the explorer's statistics.
func recordStates(c *explore.Ctx, declKey string, res *ref.Result, units []string) {
	var prev uint64
	for i, s := range res.States {
		h := c.State(declKey, s)
		if i > 0 {
			lbl := ""
			if i-1 < len(units) {
				lbl = units[i-1]
			}
			c.Transition(prev, lbl, h)
		}
		prev = h
	}
}

func panicSite() string { return explore.PanicSite() }

// rezero puts every option and positional field back to its zero value and empties the call logs:
// used after a warm-up parse on the same parser, so that what the next parse stores can be compared
// with the model's fresh-state expectation while the parser's internal state is the used one.
func rezero(b *decl.Built) {
	for o, v := range b.Vals {
		if o.Type.IsFunc() {
			*b.Calls[o] = nil
			continue
		}
		if o.Initial != nil {
			v.Set(decl.CopyInitial(reflect.ValueOf(o.Initial).Convert(v.Type())))
		} else {
			v.Set(reflect.Zero(v.Type()))
		}
	}
	for _, v := range b.PosVals {
		v.Set(reflect.Zero(v.Type()))
	}
	b.ExecLog = nil
}

// earlierParse runs argv on the same parser before the parse under test (a program that re-uses its parser, or
// that retries after a rejected command line). Options in keep are left holding what that parse gave them and are
// returned for ref.Config.Held; every other field and every call log is put back, and no command stays selected.
func earlierParse(b *decl.Built, cfg *ref.Config, argv []string, keep ...*decl.Opt) (*realRun, map[*decl.Opt]reflect.Value) {
	wr := runParser(b, cfg, argv, runOpts{})
	held := map[*decl.Opt]reflect.Value{}
	saved := map[*decl.Opt]reflect.Value{}
	for _, o := range keep {
		if o.Type.IsFunc() {
			held[o] = reflect.Value{} // (a marker: a callback has no value to hold; what lasts is that its default is spent)
			continue
		}
		v := reflect.New(b.Vals[o].Type()).Elem()
		v.Set(decl.CopyInitial(b.Vals[o]))
		saved[o] = v
		held[o] = decl.CopyInitial(v)
	}
	rezero(b)
	for o, v := range saved {
		b.Vals[o].Set(v)
	}
	for _, fc := range b.Cmds {
		if fc != nil {
			fc.Active = nil
		}
	}
	if b.Parser != nil {
		b.Parser.Active = nil
	}
	return wr, held
}
