package checks

import (
	"bytes"
	"fmt"
	"strings"

	flags "github.com/jessevdk/go-flags"

	"verif/mc/decl"
	"verif/mc/explore"
	"verif/mc/ref"
)

// C14 — INI reading is robust and pinpoints errors.

var c14DeclA, c14DeclB [2]*decl.Decl

// declaration for arbitrary byte strings: names reachable over the byte alphabet
func c14BytesDecl(ignore bool) *decl.Decl {
	i := 0
	if ignore {
		i = 1
	}
	if c14DeclA[i] == nil {
		top := &decl.Cmd{Name: "app", Opts: []*decl.Opt{{Field: "A", Long: "a", Type: decl.TMapSS}}}
		top.Groups = []*decl.Group{{Field: "Ga", Name: "a", Opts: []*decl.Opt{{Field: "Inner", Long: "inner", IniName: "aa", Type: decl.TString}}}}
		d := &decl.Decl{Top: top}
		if ignore {
			d.Options = flags.IgnoreUnknown
		}
		c14DeclA[i] = d.Finish()
	}
	return c14DeclA[i]
}

func c14LinesDecl(ignore bool) *decl.Decl {
	i := 0
	if ignore {
		i = 1
	}
	if c14DeclB[i] == nil {
		top := &decl.Cmd{Name: "app", Opts: []*decl.Opt{
			{Field: "S", Long: "str", Type: decl.TString},
			{Field: "I", Long: "int", Type: decl.TInt},
			{Field: "L", Long: "list", Type: decl.TStrings},
			{Field: "M", Long: "map", Type: decl.TMapSI},
			{Field: "B", Long: "bool", Type: decl.TBool},
			{Field: "Ch", Long: "choice", Type: decl.TString, Choices: []string{"red", "green"}},
			{Field: "Fn", Long: "fn", Type: decl.TFunc0},
		}}
		top.Groups = []*decl.Group{{Field: "Grp", Name: "Grp", Opts: []*decl.Opt{{Field: "G", Long: "gopt", Type: decl.TString}}}}
		top.Cmds = []*decl.Cmd{{Field: "Cmd", Name: "cmd", Opts: []*decl.Opt{{Field: "C", Long: "copt", Type: decl.TString}}},
			{Field: "Up", Name: "UpCmd", Opts: []*decl.Opt{{Field: "U", Long: "uopt", Type: decl.TString}}},
			{Field: "Dot", Name: "db.migrate", Opts: []*decl.Opt{{Field: "D", Long: "dopt", Type: decl.TString}}}}
		top.SubOptional = true
		d := &decl.Decl{Top: top}
		if ignore {
			d.Options = flags.IgnoreUnknown
		}
		c14DeclB[i] = d.Finish()
	}
	return c14DeclB[i]
}

var c14Bytes = []string{"[", "]", "=", "\"", ":", ";", "#", " ", "\n", "\r", "a", "\\", "\xff"}

var c14Long = map[string]string{
	"<4095>":   strings.Repeat("x", 4095),
	"<4096>":   strings.Repeat("x", 4096),
	"<4097>":   strings.Repeat("x", 4097),
	"<10000>":  strings.Repeat("y", 10000),
	"<4092>":   strings.Repeat("z", 4092), // "S = " + 4092 bytes = a line of exactly one read buffer
	"<8188>":   strings.Repeat("w", 8188), // exactly two read buffers
	"<70000>":  strings.Repeat("v", 70000),
	"<sp4100>": strings.Repeat(" ", 4100), // blanks that push a line past the read buffer
}

// line alphabet: valid entries, headers, noise, faults
var c14Lines = []string{
	"S = a", "I = 5", "L = x", "M = k:1", "B = true", `S = "q z"`, "G = g", "C = c",
	"[Application Options]", "[Grp]", "[cmd]", "[UpCmd]", "U = u", "[db.migrate]", "D = d", "Ch = red", "Ch = blue", "# <70000>", "Fn = x", "B = maybe",
	"", "   ", "; c", "# c = 1", "; <4095>", "# <4096>", "S = <4097>", "; <10000>", "S = <4092>", "S = <8188>",
	"  ; <4097>", "<sp4100>", "[Grp]<sp4100>", // noise and a header that are padded *and* longer than the read buffer
	"nokey", `S = "abc`, "[open", "[]", "Zzz = 1", "I = x", "M = k:", "[Nope]", "  L  =  y  ",
}

var c14AllIdx, c14ShortIdx = func() ([]int, []int) {
	var all, short []int
	for i, l := range c14Lines {
		all = append(all, i)
		if !strings.Contains(l, "<") {
			short = append(short, i)
		}
	}
	return all, short
}()

func c14Expand(line string) string {
	for k, v := range c14Long {
		line = strings.Replace(line, k, v, 1)
	}
	return line
}

func c14Abbrev(s string) string {
	if len(s) > 200 {
		return fmt.Sprintf("%s…(%d bytes)", s[:40], len(s))
	}
	return s
}

// c14Run reads text with the real reader.
func c14Run(d *decl.Decl, text string) (b *decl.Built, err error, pan interface{}, site string) {
	b = d.BuildTags()
	if b.Err != nil {
		return b, b.Err, nil, ""
	}
	defer func() {
		if r := recover(); r != nil {
			pan, site = r, explore.PanicSite()
		}
	}()
	ip := flags.NewIniParser(b.Parser)
	if c14Reused {
		// the same IniParser has read another file before, while the parser did not yet carry IgnoreUnknown: that file named a
		// section that does not exist and was rejected; the program then sets the parser's options as they are for this read
		want := b.Parser.Options
		b.Parser.Options &^= flags.IgnoreUnknown
		ferr := ip.Parse(strings.NewReader("[No Such Section]\nzz = 1\n"))
		b.Parser.Options = want
		if fe, ok := ferr.(*flags.Error); !ok || fe.Type != flags.ErrUnknownGroup {
			c14ReuseFault = fmt.Sprintf("the earlier file names a section that does not exist, read without IgnoreUnknown: %v", ferr)
			return b, nil, nil, ""
		}
	}
	ip.ParseAsDefaults = c14AsDefaults
	err = ip.Parse(bytes.NewReader([]byte(text)))
	return
}

var c14Reused bool // per leaf: the IniParser has read (and rejected) another file before
var c14ReuseFault string

var c14AsDefaults bool // per leaf: the file is read in as-defaults mode (faults are faults all the same)

// c14Compare checks the real result against the model's outcome.
func c14Compare(c *explore.Ctx, d *decl.Decl, b *decl.Built, out *ref.IniOutcome, err error, class string) {
	if ie, ok := err.(*flags.IniError); ok && out.MayFault[int(ie.LineNumber)] {
		c.Hit("value-for-a-callback-without-parameter-rejected")
		return
	}
	if len(out.Faults) == 0 {
		c.Hit("clean")
		if err != nil {
			c.Fail("well-formed-input-rejected|"+class, fmt.Sprint(err))
			return
		}
		for _, o := range d.EveryOpt() {
			texts := out.Values[o]
			if len(texts) == 0 || out.Unspecified[o] || len(out.Sections[o]) > 1 {
				continue // an option assigned from several sections: the order of sections is C15's subject
			}
			want, ok := ref.IniValue(o, texts)
			if !ok {
				continue
			}
			if !ref.SameValue(want, b.Vals[o]) {
				c.Fail("value-changed-by-surrounding-lines|"+class+"|"+o.Type.Name, map[string]interface{}{"option": o.ID, "want": ref.Show(want), "got": ref.Show(b.Vals[o])})
			}
		}
		return
	}
	if err == nil {
		c.Fail("fault-not-reported|"+out.Faults[0].What+"|"+class, map[string]interface{}{"faults": out.Faults})
		return
	}
	// the reported fault must be one of the file's faults, located exactly
	ie, isIni := err.(*flags.IniError)
	fe, isFE := err.(*flags.Error)
	matched := false
	for _, f := range out.Faults {
		if f.Line > 0 && isIni && int(ie.LineNumber) == f.Line {
			matched = true
		}
		if f.Line == 0 && isFE && fe.Type == flags.ErrUnknownGroup {
			matched = true
		}
	}
	c.Hit("fault:" + out.Faults[0].What)
	if len(out.Faults) == 1 {
		c.Hit("single-fault")
	}
	if !matched {
		what := out.Faults[0].What
		c.Fail("fault-mislocated-or-mistyped|"+what+"|"+class, map[string]interface{}{"error": fmt.Sprintf("%T %v", err, err), "faults": out.Faults})
	}
}

func init() {
	body := func(c *explore.Ctx) {
		part := c.Choose(2)
		ignore := c.Bool()
		if part == 0 {
			maxLen := 6
			if c.Thorough && !ignore {
				maxLen = 7 // thorough: one byte more, without IgnoreUnknown
			}
			n := c.Choose(maxLen + 1)
			text := ""
			for i := 0; i < n; i++ {
				text += c14Bytes[c.Choose(len(c14Bytes))]
			}
			d := c14BytesDecl(ignore)
			c.Describe(func() interface{} {
				return map[string]interface{}{"part": "byte-strings", "ignore_unknown": ignore, "input": fmt.Sprintf("%q", text)}
			})
			b, err, pan, site := c14Run(d, text)
			if pan != nil {
				c.Fail("panic|"+site, map[string]interface{}{"panic": fmt.Sprint(pan)})
				return
			}
			out := ref.ApplyIni(d, text, ignore, "Application Options")
			c.Outcome("bytes", errType2(err), fmt.Sprint(len(out.Faults)))
			if ie, ok := err.(*flags.IniError); ok {
				if ie.LineNumber < 1 || int(ie.LineNumber) > out.File.Lines {
					c.Fail("line-number-outside-file", map[string]interface{}{"line": ie.LineNumber, "lines": out.File.Lines})
				}
			}
			c14Compare(c, d, b, out, err, "bytes")
			return
		}
		// structured files
		maxLines := 4
		if c.Thorough {
			maxLines = 5
		}
		crlf := c.Bool()
		noFinalNL := c.Bool()
		n := c.Choose(maxLines + 1)
		if n == 0 {
			c14AddedOption(c, ignore, crlf)
		}
		c14AsDefaults = n >= 1 && n <= 2 && c.Bool()
		defer func() { c14AsDefaults = false }()
		c14Reused = n <= 2 && c.Bool()
		defer func() { c14Reused = false }()
		if c14Reused {
			c.Hit("IniParser-re-used")
		}
		if c14AsDefaults {
			c.Hit("as-defaults")
		}
		var lines []string
		var idx []int
		pool := c14AllIdx
		if n == maxLines {
			pool = c14ShortIdx // files of maximal length are built from the short lines only
		}
		for i := 0; i < n; i++ {
			k := pool[c.Choose(len(pool))]
			idx = append(idx, k)
			lines = append(lines, c14Expand(c14Lines[k]))
		}
		nl := "\n"
		if crlf {
			nl = "\r\n"
		}
		text := strings.Join(lines, nl)
		if n > 0 && !noFinalNL {
			text += nl
		}
		d := c14LinesDecl(ignore)
		c.Describe(func() interface{} {
			var show []string
			for _, k := range idx {
				show = append(show, c14Lines[k])
			}
			return map[string]interface{}{"part": "line-files", "ignore_unknown": ignore, "crlf": crlf, "final_newline": !noFinalNL, "as_defaults": c14AsDefaults, "IniParser_has_rejected_another_file_before": c14Reused, "lines": show}
		})
		b, err, pan, site := c14Run(d, text)
		if pan != nil {
			c.Fail("panic|"+site, map[string]interface{}{"panic": fmt.Sprint(pan)})
			return
		}
		if c14ReuseFault != "" {
			c.Fail("unknown-section-not-reported|IgnoreUnknown-was-not-set-when-the-file-was-read", c14ReuseFault)
			c14ReuseFault = ""
			return
		}
		// the model reads the LF-normalised text: line ends must not matter
		out := ref.ApplyIni(d, strings.ReplaceAll(text, "\r\n", "\n"), ignore, "Application Options")
		c.Outcome("lines", errType2(err), fmt.Sprint(out.Faults), fmt.Sprint(len(out.Values)))
		if crlf {
			c.Hit("crlf")
		}
		for _, k := range idx {
			if strings.Contains(c14Lines[k], "<") {
				c.Hit("long-line")
				break
			}
		}
		c14Compare(c, d, b, out, err, "lines")
	}
	explore.Register(&explore.Check{
		ID:         "C14",
		Level:      "fault_enumeration",
		ShardDepth: 5,
		Body:       body,
		Rule: "(i) every byte string of length <= 6 (thorough: <= 7 without IgnoreUnknown) over {[ ] = \" : ; # space LF CR a \\ 0xFF} read into a declaration whose option, ini-name and group are reachable over that alphabet (map option a, group a, ini-name aa); " +
			"(ii) every file of <= 3 (quick) / <= 4 (thorough) lines over 42 lines, and of 4 / 5 lines over the 30 of them that are short: 8 valid entries (scalar, int, slice, map, bool, quoted, group and command options), a value given to a func() option (may be rejected with its line, must not panic), 3 headers, 11 noise lines (empty, blanks, ; and # comments, 4095/4096/10000-byte comments, a 4097-byte value, an indented 4099-byte comment, a line of 4100 blanks, a header followed by 4100 blanks) and 2 entries whose line is exactly one / two read buffers long (4096 / 8192 bytes), " +
			"10 faults (a bool given a word that is no boolean, no '=', bad quoting, open header, empty header, unknown option, unconvertible int, empty map value, unknown section, padded entry) x LF/CRLF x final newline present/absent (files of one or two lines also read in as-defaults mode, and also with an IniParser that has read and rejected another file - one naming an unknown section - before, the parser's IgnoreUnknown being set only after that); both with and without IgnoreUnknown; " +
			"oracle: returns normally; reference reader: no fault => no error and the values the entries denote (noise and line ends change nothing); faults => the error is one of them, IniError carrying exactly its 1-based line or ErrUnknownGroup; the first syntax fault always wins; " +
			"distinct = distinct (error class, fault list, assigned options)",
		Assumptions:  []string{"options assigned from more than one section are not compared (section order is C15's subject)", "values are not compared once an error is returned"},
		RequiredHits: []string{"IniParser-re-used", "clean", "single-fault", "crlf", "long-line", "fault:unknown option", "fault:unconvertible value", "fault:unknown section", "fault:bad quoting", "fault:no key=value", "fault:section header"},
		Bound:        [2]string{"byte strings <= 6; files <= 3 lines (4 without the long lines)", "byte strings <= 7; files <= 4 lines (5 without the long lines)"},
		BudgetS:      [2]int{170, 1500},
	})
}

func errType2(err error) string {
	if _, ok := err.(*flags.IniError); ok {
		return "IniError"
	}
	return errType(err)
}

// c14AddedOption: an option handed to the library with (*Group).AddOption is an option like any other for the reader.
func c14AddedOption(c *explore.Ctx, ignore, crlf bool) {
	d := c14LinesDecl(ignore)
	b := d.BuildTags()
	if b.Err != nil {
		return
	}
	var added string
	b.Parser.Command.Group.AddOption(&flags.Option{LongName: "added", Description: "added with AddOption"}, &added)
	nl := "\n"
	if crlf {
		nl = "\r\n"
	}
	text := "added = x" + nl + "S = a" + nl
	var err error
	func() {
		defer func() {
			if r := recover(); r != nil {
				c.Fail("panic|"+explore.PanicSite(), map[string]interface{}{"panic": fmt.Sprint(r), "input": text, "note": "option --added was added with (*Group).AddOption"})
			}
		}()
		err = flags.NewIniParser(b.Parser).Parse(strings.NewReader(text))
	}()
	if c.Failed() {
		return
	}
	c.Hit("option-added-with-AddOption")
	if err != nil {
		c.Fail("well-formed-input-rejected|added-option", err.Error())
	} else if added != "x" {
		c.Fail("value-changed-by-surrounding-lines|added-option", added)
	}
}
