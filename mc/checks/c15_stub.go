//go:build !verifmaporder

package checks

import "verif/mc/explore"

// C15 needs the instrumented build (see c15.go); /verif/run.sh builds it. This stub only keeps
// the id known to the plain binary.
func init() {
	explore.Register(&explore.Check{
		ID:    "C15",
		Level: "model_checking",
		Body: func(c *explore.Ctx) {
			c.Fail("harness|C15-needs-the-instrumented-binary (use /verif/run.sh C15 <tier>)", nil)
		},
		Rule: "see the instrumented build",
	})
}
