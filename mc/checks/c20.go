package checks

import (
	"fmt"
	"sort"
	"strings"
	"unicode/utf8"

	flags "github.com/jessevdk/go-flags"

	"verif/mc/explore"
	"verif/mc/ref"
)

// C20 — unknown-command diagnostics name the truly nearest command.
//
// Names and words are drawn from letters that do not occur in the library's
// message templates, so the names mentioned by a message can be read back as the
// maximal runs of alphabet letters, whatever the wording around them.

type nopCmd struct{}

var c20Letters = []string{"q", "z", "é", "j"}

func allStrings(letters []string, min, max int) []string {
	var out []string
	var rec func(prefix string, n int)
	rec = func(prefix string, n int) {
		if n == 0 {
			out = append(out, prefix)
			return
		}
		for _, l := range letters {
			rec(prefix+l, n-1)
		}
	}
	for n := min; n <= max; n++ {
		rec("", n)
	}
	return out
}

func c20Tokens(msg string) []string {
	var out []string
	cur := ""
	for _, r := range msg {
		if strings.ContainsRune("qzéjß€ũQ", r) {
			cur += string(r)
		} else if cur != "" {
			out = append(out, cur)
			cur = ""
		}
	}
	if cur != "" {
		out = append(out, cur)
	}
	return out
}

func init() {
	var namesQ, namesT, wordsQ, wordsT []string
	namesQ = dedupStrings(append(allStrings(c20Letters[:3], 1, 3), "Q", "Qz", "zQ")) // three names with an upper-case letter
	namesT = append(allStrings(c20Letters[:3], 1, 3), allStrings(c20Letters, 1, 2)...)
	namesT = dedupStrings(append(namesT, "Q", "Qz", "zQ"))
	// ũ (C5 A9) ends in the same byte as é (C3 A9); % is a formatting verb introducer
	wordsQ = append([]string{""}, allStrings([]string{"q", "z", "é", "ß", "€", "ũ", "%"}, 1, 2)...)
	wordsQ = append(wordsQ, allStrings([]string{"q", "z", "é", "ß"}, 3, 3)...)
	wordsT = append([]string{""}, allStrings([]string{"q", "z", "é", "j", "ß", "€", "ũ", "%"}, 1, 2)...)
	wordsT = append(wordsT, allStrings([]string{"q", "z", "é", "ß"}, 3, 4)...)

	// long names: distances of 2 and 3 decide about a suggestion only for names of five characters and more
	longNames := allStrings([]string{"q", "z"}, 5, 6)
	longWords := allStrings([]string{"q", "z"}, 3, 6)
	body := func(c *explore.Ctx) {
		names, words := namesQ, wordsQ
		if c.Thorough {
			names, words = namesT, wordsT
		}
		long := c.Choose(2) == 1
		if long {
			names, words = longNames, longWords
			c.Hit("long-names")
		}
		// name set: strictly increasing indices, size 1..3 (1..2 of the long names, all visible)
		i0 := c.Choose(len(names))
		set := []string{names[i0]}
		if k := c.Choose(len(names) - i0); k > 0 {
			i1 := i0 + k
			set = append(set, names[i1])
			if !long {
				if k2 := c.Choose(len(names) - i1); k2 > 0 {
					set = append(set, names[i1+k2])
				}
			}
		}
		mask := 0
		if !long {
			mask = c.Choose(1 << uint(len(set)))
		}
		form := c.Choose(len(words) + 1) // 0 = no word at all (missing-command form)
		history := c.Deviate(3)          // 0 fresh parser; 1 the parser selected a command before; 2 the hidden marks are set after a first failing parse
		optv := c.Deviate(3)             // 1: PassAfterNonOption is set; 2: PassDoubleDash is set and the word follows the terminator
		aliased := c.Deviate(2) == 1     // the first command also answers to the alias "ßß": aliases are no candidates for the suggestion
		var argv []string
		word := ""
		if form > 0 {
			word = words[form-1]
			argv = []string{word}
		}
		if (optv != 0 || aliased) && !c.Thorough && utf8.RuneCountInString(word) > 2 {
			c.Skip() // quick: these variants go with the words of up to two characters
		}
		if optv == 2 {
			argv = append([]string{"--"}, argv...)
		}
		var visible []string
		for i, n := range set {
			if mask&(1<<uint(i)) == 0 {
				visible = append(visible, n)
			}
			if form > 0 && (n == word || (aliased && word == "ßß")) {
				c.Skip() // the word names a command: not the subject here
			}
		}
		sort.Strings(visible)
		c.Describe(func() interface{} {
			return map[string]interface{}{"commands": set, "hidden_mask": mask, "argv": argv, "first_command_has_alias_ßß": aliased, "parser_options": []string{"None", "PassAfterNonOption", "PassDoubleDash"}[optv], "history": []string{"fresh parser", "a command was selected by an earlier parse", "hidden marks set after a first failing parse"}[history]}
		})

		p := flags.NewNamedParser("app", []flags.Options{flags.None, flags.PassAfterNonOption, flags.PassDoubleDash}[optv])
		if optv != 0 {
			c.Hit("other-option-set")
		}
		// registration order is the reverse of sorted order so that sorting is the library's job
		var cmds []*flags.Command
		for i := len(set) - 1; i >= 0; i-- {
			cmd, err := p.AddCommand(set[i], "", "", &nopCmd{})
			if err != nil {
				c.Fail("setup-error", err.Error())
				return
			}
			cmds = append(cmds, cmd)
			if aliased && i == 0 {
				cmd.Aliases = []string{"ßß"}
				c.Hit("aliased")
			}
			if history != 2 {
				cmd.Hidden = mask&(1<<uint(i)) != 0
			}
		}
		switch history {
		case 1:
			if _, err := p.ParseArgs([]string{set[len(set)-1]}); err != nil {
				c.Fail("harness-warm-up-parse-failed", err.Error())
				return
			}
		case 2:
			p.ParseArgs([]string{"ßßßßß"}) // a first diagnosis while everything is visible
			p.ParseArgs(nil)
			for k, cmd := range cmds {
				i := len(set) - 1 - k
				cmd.Hidden = mask&(1<<uint(i)) != 0
			}
		}
		if history != 0 {
			c.Hit("used-parser")
		}
		_, err := p.ParseArgs(argv)
		fe, ok := err.(*flags.Error)
		if !ok {
			c.Fail("not-a-flags-error", fmt.Sprint(err))
			return
		}
		// the message may echo the given word: take its first occurrence out before reading the names
		msgNames := fe.Message
		if word != "" {
			msgNames = strings.Replace(msgNames, word, " ", 1)
		}
		toks := c20Tokens(msgNames)
		c.Outcome(fmt.Sprint(fe.Type), strings.Join(toks, ","), fmt.Sprint(strings.Contains(fe.Message, "did you mean")))

		if form == 0 {
			c.Hit("missing-command")
			if fe.Type != flags.ErrCommandRequired {
				c.Fail("missing-command-wrong-type", fe.Type.String())
			}
			if strings.Join(toks, ",") != strings.Join(visible, ",") {
				c.Fail("missing-command-enumeration", map[string]interface{}{"message": fe.Message, "want_names": visible})
			}
			return
		}
		if fe.Type != flags.ErrUnknownCommand {
			c.Fail("unknown-command-wrong-type", fe.Type.String())
			return
		}

		// reference: true distances
		min := -1
		for _, n := range visible {
			if d := ref.Levenshtein(word, n); min < 0 || d < min {
				min = d
			}
		}
		mustSuggest, maySuggest := len(visible) > 0, map[string]bool{}
		for _, n := range visible {
			if ref.Levenshtein(word, n) != min {
				continue
			}
			byBytes := float64(min)/float64(len(n)) < 0.5
			byChars := float64(min)/float64(utf8.RuneCountInString(n)) < 0.5
			if byBytes || byChars {
				maySuggest[n] = true
			}
			if !(byBytes && byChars) {
				mustSuggest = false
			}
		}
		if strings.Contains(fe.Message, "did you mean") {
			c.Hit("suggestion")
			if len(toks) != 1 {
				c.Fail("suggestion-unreadable", fe.Message)
				return
			}
			x := toks[0]
			isVisible := false
			for _, n := range visible {
				if n == x {
					isVisible = true
				}
			}
			switch {
			case !isVisible:
				c.Fail("suggests-hidden-or-unknown", map[string]interface{}{"message": fe.Message, "visible": visible})
			case ref.Levenshtein(word, x) != min:
				c.Fail("suggests-not-nearest", map[string]interface{}{"message": fe.Message, "suggested_distance": ref.Levenshtein(word, x), "minimum": min, "visible": visible})
			case !maySuggest[x]:
				c.Fail("suggests-beyond-half-length", map[string]interface{}{"message": fe.Message, "distance": min, "visible": visible})
			}
			return
		}
		c.Hit("enumeration")
		if mustSuggest {
			c.Fail("no-suggestion-for-near-name", map[string]interface{}{"message": fe.Message, "minimum": min, "visible": visible})
			return
		}
		if strings.Join(toks, ",") != strings.Join(visible, ",") {
			c.Fail("enumeration-wrong", map[string]interface{}{"message": fe.Message, "want_names": visible})
		}
	}

	explore.Register(&explore.Check{
		ID:         "C20",
		Level:      "exploration",
		ShardDepth: 2,
		Body:       body,
		DevBound:   func(bool) int { return 1 },
		Rule: "(plus: every set of one or two of the 96 names of 5-6 characters over {q, z} x every word of 3-6 characters over {q, z}: distances 2 and 3 against names long enough for them to matter) every set of 1..3 command names (all strings of length 1..3 over {q,z,é} and Q, Qz, zQ; thorough adds all of length <= 2 over {q,z,é,j}), every hidden mask, " +
			"x every word (all strings <= 2 over 7 characters and of length 3 over 4 of them quick / <= 2 over 8 characters and of length 3..4 over 4 of them thorough, drawn from the letters plus the foreign characters ß (2 bytes), € (3 bytes), ũ (2 bytes, same last byte as é) and %, the empty word, and no word at all) x {fresh parser, parser on which an earlier parse selected a command, hidden marks changed after a first diagnosis on the same parser} (or, instead, the first command given the alias ßß, which is no candidate for a suggestion; or PassAfterNonOption set / PassDoubleDash set with the word after the terminator: the diagnosis is the same); " +
			"oracle = textbook rune Levenshtein + the < 1/2 rule; distinct = distinct (error type, names mentioned, suggestion?) observations",
		Assumptions:  []string{"names mentioned by a message are read back as maximal runs of the alphabet letters, which do not occur in the message templates", "ties between nearest names: any minimiser accepted", "threshold accepted with the name length in bytes or in characters"},
		RequiredHits: []string{"long-names", "missing-command", "suggestion", "enumeration", "used-parser", "other-option-set"},
		Bound:        [2]string{"name sets <=3 of names <=3 over 3 letters; words <=3 over 7 characters", "name sets <=3 of names <=3 over 4 letters; words <=4 over 8 characters"},
		BudgetS:      [2]int{170, 1500},
	})
}

func dedupStrings(in []string) []string {
	seen := map[string]bool{}
	var out []string
	for _, x := range in {
		if !seen[x] {
			seen[x] = true
			out = append(out, x)
		}
	}
	sort.Strings(out)
	return out
}
