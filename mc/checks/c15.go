//go:build verifmaporder

package checks

import (
	"bytes"
	"fmt"
	"os"
	"reflect"
	"strings"

	flags "github.com/jessevdk/go-flags"

	"verif/mc/decl"
	"verif/mc/explore"
	"verif/mc/ref"
)

// C15 — outcomes are deterministic.
//
// This file is only built into the instrumented binary (run.sh builds it with
// -tags verifmaporder and the -overlay produced by cmd/maporder): every map
// iteration of the library then asks VerifMapOrderHook for the order, and the
// explorer enumerates those orders like thread schedules.

var c15ctx *explore.Ctx
var c15trace []string

func init() {
	flags.VerifMapOrderHook = func(site string, n int) []int {
		perm := make([]int, n)
		for i := range perm {
			perm[i] = i
		}
		c := c15ctx
		if c == nil {
			return perm
		}
		// Lehmer code: every permutation is reachable; for larger maps every digit is a deviation point
		avail := append([]int{}, perm...)
		out := make([]int, 0, n)
		moved := false
		for i := 0; i < n; i++ {
			// every digit of the Lehmer code is a deviation point: 0 keeps the canonical order
			j := c.Deviate(n - i)
			if j != 0 {
				moved = true
			}
			out = append(out, avail[j])
			avail = append(avail[:j], avail[j+1:]...)
		}
		if moved {
			c15trace = append(c15trace, site)
		}
		return out
	}
}

type c15Scenario struct {
	family string
	name   string
	run    func() string
}

func c15Values(b *decl.Built, d *decl.Decl) string {
	var sb strings.Builder
	for _, o := range d.EveryOpt() {
		if o.Type.IsFunc() {
			continue
		}
		// render maps in sorted order: the value, not Go's printing order, is the observable
		v := b.Vals[o]
		if v.Kind() == reflect.Map {
			keys := v.MapKeys()
			var parts []string
			for _, k := range keys {
				parts = append(parts, fmt.Sprintf("%v:%v", k.Interface(), v.MapIndex(k).Interface()))
			}
			sortStrings(parts)
			fmt.Fprintf(&sb, "%s=map[%s];", o.ID, strings.Join(parts, " "))
			continue
		}
		fmt.Fprintf(&sb, "%s=%s;", o.ID, ref.Show(v))
	}
	return sb.String()
}

func sortStrings(s []string) {
	for i := 1; i < len(s); i++ {
		for j := i; j > 0 && s[j] < s[j-1]; j-- {
			s[j], s[j-1] = s[j-1], s[j]
		}
	}
}

func c15Decl() *decl.Decl {
	top := &decl.Cmd{Name: "app", SubOptional: true, Desc: "", Opts: []*decl.Opt{
		{Field: "S", Short: "s", Long: "str", Type: decl.TString, Desc: "a string"},
		{Field: "L", Short: "l", Long: "list", Type: decl.TStrings, Desc: "a list"},
		{Field: "M", Short: "m", Long: "map", Type: decl.TMapSI, Desc: "a map"},
		{Field: "N", Long: "names", Type: decl.TMapSS, Desc: "another map"},
		{Field: "N2", Long: "numlike", Type: decl.TMapSS, Desc: "string keys that look like numbers"},
		{Field: "K", Long: "keyed", Type: decl.TMapIS, Desc: "a map with int keys"},
		{Field: "MB", Long: "switches", Type: decl.TMapSB, Desc: "a map of bools"},
		{Field: "BK", Long: "boolkeys", Type: decl.TMapBS, Desc: "a map with bool keys"},
		{Field: "HX", Long: "hexkeys", Type: decl.TMapIS, Base: "16", Desc: "int keys written in base 16"},
		{Field: "P", Long: "port", Type: decl.TInt, Desc: "a number", Defaults: []string{"80"}},
		{Field: "Q", Short: "q", Type: decl.TBool, Desc: "short only"},
		{Field: "QQ", Short: "Q", Type: decl.TBool, Desc: "short only, other case"},
		{Field: "Port2", Long: "Port", Type: decl.TInt, Desc: "differs from --port by case only"},
	}}
	top.Groups = []*decl.Group{{Field: "Grp", Name: "Grp", Namespace: "g", Opts: []*decl.Opt{{Field: "G", Long: "gopt", Type: decl.TString, Desc: "in a group"}, {Field: "Pre", Long: "prefix", Type: decl.TString}}}}
	top.Cmds = []*decl.Cmd{
		{Field: "Zed", Name: "zed", Desc: "last"},
		{Field: "Add", Name: "add", Desc: "first", Aliases: []string{"a"}, Opts: []*decl.Opt{{Field: "F", Long: "force", Type: decl.TBool}}},
		{Field: "Mid", Name: "mid", Desc: "middle"},
	}
	return (&decl.Decl{Top: top}).Finish()
}

func c15ReqDecl() *decl.Decl {
	top := &decl.Cmd{Name: "app", Opts: []*decl.Opt{
		{Field: "C", Long: "ccc", Type: decl.TString, Required: "yes"},
		{Field: "A", Long: "aaa", Short: "a", Type: decl.TString, Required: "yes"},
		{Field: "B", Long: "bbb", Type: decl.TInt, Required: "yes"},
	}}
	top.Cmds = []*decl.Cmd{{Field: "Zed", Name: "zed"}, {Field: "Add", Name: "add"}, {Field: "Mid", Name: "mid"}}
	return (&decl.Decl{Top: top}).Finish()
}

func errText(err error) string {
	if err == nil {
		return "ok"
	}
	return fmt.Sprintf("%T:%v", err, err)
}

func c15Scenarios() []c15Scenario {
	d := c15Decl()
	rd := c15ReqDecl()
	iniRead := func(text string, asDefaults bool, thenWrite bool) func() string {
		return func() string {
			b := d.BuildTags()
			ip := flags.NewIniParser(b.Parser)
			ip.ParseAsDefaults = asDefaults
			err := ip.Parse(strings.NewReader(text))
			out := errText(err) + "|" + c15Values(b, d)
			if thenWrite {
				var buf bytes.Buffer
				ip.Write(&buf, flags.IniIncludeDefaults)
				out += "|" + buf.String()
			}
			return out
		}
	}
	help := func(prep func(b *decl.Built), argv []string) func() string {
		return func() string {
			b := d.BuildTags()
			if prep != nil {
				prep(b)
			}
			_, err := b.Parser.ParseArgs(argv)
			var buf bytes.Buffer
			b.Parser.WriteHelp(&buf)
			return errText(err) + "|" + buf.String()
		}
	}
	setMaps := func(b *decl.Built) {
		for _, o := range d.Top.Opts {
			switch o.Field {
			case "M":
				b.Vals[o].Set(reflect.ValueOf(map[string]int{"b": 2, "a": 1, "c": 3}))
			case "N":
				b.Vals[o].Set(reflect.ValueOf(map[string]string{"y": "2", "x": "1"}))
			case "K":
				b.Vals[o].Set(reflect.ValueOf(map[int]string{20: "b", 3: "a", 100: "c"}))
			case "MB":
				b.Vals[o].Set(reflect.ValueOf(map[string]bool{"on": true, "off": false}))
			case "BK":
				b.Vals[o].Set(reflect.ValueOf(map[bool]string{true: "yes", false: "no"}))
			case "HX":
				b.Vals[o].Set(reflect.ValueOf(map[int]string{2: "a", 10: "b", 255: "c", 171: "d"})) // base 16: 2, a, ff, ab (three of them are no decimal numerals)
			case "N2":
				b.Vals[o].Set(reflect.ValueOf(map[string]string{"2": "a", "10": "b", "1a": "c", "01": "d", "1": "e"}))
			}
		}
	}
	completion := func(words ...string) func() string {
		return func() string {
			b := d.BuildTags()
			var items []string
			b.Parser.CompletionHandler = func(it []flags.Completion) {
				for _, i := range it {
					items = append(items, i.Item+"#"+i.Description)
				}
			}
			os.Setenv("GO_FLAGS_COMPLETION", "1")
			defer os.Unsetenv("GO_FLAGS_COMPLETION")
			b.Parser.ParseArgs(words)
			return strings.Join(items, ",")
		}
	}
	parse := func(dd *decl.Decl, argv ...string) func() string {
		return func() string {
			b := dd.BuildTags()
			rest, err := b.Parser.ParseArgs(argv)
			return errText(err) + "|" + strings.Join(rest, ",") + "|" + c15Values(b, dd)
		}
	}
	return []c15Scenario{
		{"ini-read", "same option in global + named section", iniRead("S = global\n[Application Options]\nS = named\n", false, true)},
		{"ini-read", "same option in three sections (case variant)", iniRead("S = global\nL = g\n[Application Options]\nS = named\nL = n\n[application options]\nS = lower\nL = l\n", false, true)},
		{"ini-read", "map option in two sections", iniRead("M = a:1\n[Application Options]\nM = a:2\nM = b:3\n", false, true)},
		{"ini-read", "two sections with an unknown option each", iniRead("Nope1 = 1\n[Grp]\nNope2 = 2\n", false, false)},
		{"ini-read", "unknown section and unknown option", iniRead("Nope1 = 1\n[NoSuchGroup]\nx = 2\n", false, false)},
		{"ini-read", "two unknown sections", iniRead("[Yotta]\na = 1\n[Zeta]\nb = 2\n", false, false)},
		{"ini-read", "three unknown sections and a known one", iniRead("[Yotta]\na = 1\n[Application Options]\nS = s\n[Zeta]\nb = 2\n[Alpha]\nc = 3\n", false, false)},
		{"ini-read", "unconvertible values in two sections", iniRead("P = x\n[Application Options]\nM = k:y\n", false, false)},
		{"ini-read", "unknown section and unconvertible value in a known one", iniRead("P = x\n[Zeta]\nb = 2\n", false, false)},
		{"ini-read", "empty unknown sections", iniRead("[Yotta]\n[Zeta]\n[Application Options]\nS = s\n", false, true)},
		{"ini-read", "int-keyed and bool maps in two sections", iniRead("K = 2:b\nMB = on:true\n[Application Options]\nK = 1:a\nK = 3:c\nMB = off:false\n", false, true)},
		{"ini-read", "as defaults, quoted and unquoted in two sections", iniRead("S = \"global\"\nG = plain\n[Application Options]\nS = named\n[Grp]\nG = \"quoted\"\n", true, true)},
		{"help", "map options pre-populated", help(setMaps, nil)},
		{"help", "map options given on the command line", help(nil, []string{"-m", "b:2", "-m", "a:1", "-m", "c:3", "--names", "y:2", "--names", "x:1"})},
		{"help", "ErrHelp-style help of a command", help(setMaps, []string{"add"})},
		{"man", "man page with populated maps", func() string {
			b := d.BuildTags()
			setMaps(b)
			b.Parser.ParseArgs(nil)
			var buf bytes.Buffer
			b.Parser.WriteManPage(&buf)
			return buf.String()
		}},
		{"ini-write", "maps with three keys, two IniOptions sets", func() string {
			b := d.BuildTags()
			b.Parser.ParseArgs(nil)
			setMaps(b)
			var buf bytes.Buffer
			for _, o := range []flags.IniOptions{flags.IniNone, flags.IniIncludeDefaults | flags.IniIncludeComments} {
				flags.NewIniParser(b.Parser).Write(&buf, o)
			}
			return buf.String()
		}},
		{"completion", "bare dash", completion("-")},
		{"completion", "double dash", completion("--")},
		{"completion", "long prefix", completion("--p")},
		{"completion", "long prefix in a command", completion("add", "--")},
		{"completion", "command names", completion("")},
		{"errors", "three required options missing", parse(rd, "add")},
		{"errors", "command required", parse(rd, "--aaa=1", "--bbb=2", "--ccc=3")},
		{"errors", "unknown command", parse(rd, "--aaa=1", "--bbb=2", "--ccc=3", "zzz")},
		{"errors", "unknown command equally near to two commands", parse(rd, "--aaa=1", "--bbb=2", "--ccc=3", "aid")},
		{"errors", "unknown command equally near to two commands, one of which has an alias", func() string {
			dd := c15Decl()
			dd.Top.SubOptional = false
			b := dd.BuildTags()
			_, err := b.Parser.ParseArgs([]string{"aid"})
			return errText(err)
		}},
		{"errors", "unknown long flag equally near to two declared ones", func() string {
			b := d.BuildTags()
			_, err := b.Parser.ParseArgs([]string{"--qort=1"})
			return errText(err)
		}},
		{"errors", "invalid choice and unknown flag", func() string {
			b := d.BuildTags()
			_, err := b.Parser.ParseArgs([]string{"--nope", "--nada"})
			return errText(err)
		}},
		{"values", "int-keyed map on the command line", parse(d, "--keyed", "20:b", "--keyed", "3:a", "--keyed=20:c", "--switches", "on:true", "--switches=off:false")},
		{"values", "map option on the command line", parse(d, "-m", "b:2", "-m", "a:1", "-m", "b:3", "--names=k:v", "--names=j:w")},
		{"values", "two groups added with AddGroup that declare the same names", func() string {
			type g1 struct {
				Dup  string `long:"dup" short:"d"`
				Only int    `long:"only-one"`
			}
			type g2 struct {
				Dup   string `long:"dup" short:"d"`
				Other int    `long:"only-two"`
			}
			a, b2 := &g1{}, &g2{}
			p := flags.NewNamedParser("app", flags.None)
			p.AddGroup("First", "", a)
			p.AddGroup("Second", "", b2)
			rest, err := p.ParseArgs([]string{"--dup=x", "-d", "y", "--only-one=1", "--only-two=2"})
			return fmt.Sprintf("%s|%q|%+v|%+v", errText(err), rest, *a, *b2)
		}},
		{"repeat", "man page, help and INI output after one parse and after three parses on the same parser", func() string {
			b := rd.BuildTags()
			b.Parser.Options = flags.HelpFlag | flags.PassDoubleDash
			show := func() string {
				var man, help, ini bytes.Buffer
				b.Parser.WriteManPage(&man)
				b.Parser.WriteHelp(&help)
				flags.NewIniParser(b.Parser).Write(&ini, flags.IniIncludeDefaults|flags.IniIncludeComments)
				return man.String() + "\x01" + help.String() + "\x01" + ini.String()
			}
			argv := []string{"--ccc=c", "-a", "a", "--bbb=1", "add"}
			_, err1 := b.Parser.ParseArgs(argv)
			once := show()
			b.Parser.ParseArgs(argv)
			_, err3 := b.Parser.ParseArgs(argv)
			thrice := show()
			if once != thrice || errText(err1) != errText(err3) {
				return c15FailMark + "after one parse:\n" + once + "\nafter three parses:\n" + thrice
			}
			return errText(err1) + "|" + once
		}},
	}
}

// c15FailMark: a scenario that compares two observations of its own (the same parser asked twice) reports a difference with this prefix.
const c15FailMark = "\x00DIFFERS-ON-REPETITION|"

func init() {
	var scen []c15Scenario
	first := map[int]string{}
	body := func(c *explore.Ctx) {
		if scen == nil {
			scen = c15Scenarios()
		}
		si := c.Choose(len(scen))
		sc := scen[si]
		mode := c.Choose(1 + 6) // 0: enumerate iteration orders; 1..6: free-running repetitions with the runtime's own order (sampling, reported separately)
		c15trace = nil
		if mode == 0 {
			c15ctx = c
		} else {
			c15ctx = nil
			hook := flags.VerifMapOrderHook
			flags.VerifMapOrderHook = nil
			defer func() { flags.VerifMapOrderHook = hook }()
		}
		var obs string
		func() {
			defer func() {
				c15ctx = nil
				if r := recover(); r != nil {
					c.Fail("panic|"+explore.PanicSite(), fmt.Sprint(r))
				}
			}()
			obs = sc.run()
		}()
		if c.Failed() {
			return
		}
		trace := append([]string{}, c15trace...)
		c.Describe(func() interface{} {
			return map[string]interface{}{"scenario": sc.family + ": " + sc.name, "mode": mode, "sites_with_a_non-identity_order": trace}
		})
		c.Outcome(fmt.Sprint(si), obs)
		if strings.HasPrefix(obs, c15FailMark) {
			c.Fail("differs-on-repetition|"+sc.family+"|"+sc.name, clip(obs[len(c15FailMark):]))
			return
		}
		{
			// the schedule tree: one state per (scenario, order vector); one transition from the vector without its last deviation
			ch := c.ChoiceList()
			last := 0
			for i := 2; i < len(ch); i++ {
				if ch[i] != 0 {
					last = i
				}
			}
			h := c.State(fmt.Sprint(si), fmt.Sprint(ch[1:]))
			if last > 0 {
				parent := append([]int{}, ch...)
				parent[last] = 0
				c.Transition(explore.Hash(fmt.Sprint(si), fmt.Sprint(parent[1:])), fmt.Sprint(last, ch[last]), h)
			} else {
				c.Transition(0, fmt.Sprint(si, ch[1:2]), h)
			}
		}
		if mode == 0 {
			c.Hit("orders-enumerated")
			if len(trace) > 0 {
				c.Hit("non-identity-order")
			}
		} else {
			c.Hit("native-order-repetitions")
		}
		ref0, seen := first[si]
		if !seen {
			first[si] = obs // the first leaf of a scenario is the identity order
			return
		}
		if obs != ref0 {
			where := "runtime-order"
			if mode == 0 {
				where = "none"
				if len(trace) > 0 {
					where = trace[len(trace)-1]
				}
			}
			c.Fail("order-dependent|"+sc.family+"|"+sc.name+"|site="+where, map[string]interface{}{"with_identity_order": clip(ref0), "with_this_order": clip(obs), "sites_permuted": trace})
		}
	}
	explore.Register(&explore.Check{
		ID:         "C15",
		Level:      "model_checking",
		ShardDepth: 1,
		Body:       body,
		DevBound: func(th bool) int {
			if th {
				return 4
			}
			return 3
		},
		Rule: "33 scenarios in 8 families (two groups handed over with AddGroup that declare the same option names; man page, help and INI output of one parser after one and after three parses of the same line; INI read with one option set from 2-3 sections incl. a case-variant section name, a map option in two sections, two faulty sections, two and three unknown sections, unconvertible values in two sections, empty unknown sections, int-keyed and bool-valued maps, as-defaults with mixed quoting, most followed by Write; help with pre-populated / command-line map options (string-, int-keyed and bool-valued maps); man page; " +
			"INI write of 3-key maps under two IniOptions sets; completion of -, --, --p, in a command, of command names; ErrRequired with three missing options, ErrCommandRequired, ErrUnknownCommand; map values from the command line) x every iteration order at every map iteration of the library: " +
			"the sources of /repo are type-checked at check time and every range over a map and every reflect MapKeys call is rewritten (go build -overlay) to ask a hook for the order; each position of each order is a deviation point (Lehmer code, 0 = canonical order) and the explorer enumerates every combination of <= 3 (quick) / <= 4 (thorough) deviations over the whole execution, which contains all n! orders of any single site with n <= 3 keys and all pairs of single displacements across sites; " +
			"oracle: every execution of a scenario observes byte-identical output, error text and values; plus 6 free-running repetitions per scenario with the runtime's own order (sampling, only a cross-check that the seam misses nothing); " +
			"states = distinct (scenario, order vector) schedules, transitions = map-iteration decisions taken",
		Assumptions:  []string{"nondeterminism other than map iteration order (time, environment) is pinned by the harness", "MapRange iterators and ranges with non-identifier keys would be left uninstrumented and are listed in bin/c15overlay/sites.json (none today)"},
		RequiredHits: []string{"orders-enumerated", "non-identity-order", "native-order-repetitions"},
		Bound:        [2]string{"<= 3 order deviations per execution", "<= 4 order deviations per execution"},
		BudgetS:      [2]int{170, 900},
		Extra: func(bool) map[string]interface{} {
			b, err := os.ReadFile(explore.VerifDir + "/bin/c15overlay/sites.json")
			if err != nil {
				return nil
			}
			return map[string]interface{}{"instrumented_sites_json": string(b)}
		},
	})
}

func clip(s string) string {
	if len(s) > 1500 {
		return s[:1500] + "…"
	}
	return s
}
