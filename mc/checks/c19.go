package checks

import (
	"fmt"
	"reflect"
	"strconv"
	"strings"
	"unicode/utf8"

	flags "github.com/jessevdk/go-flags"

	"verif/mc/decl"
	"verif/mc/explore"
	"verif/mc/ref"
)

// C19 — declarations are read faithfully or rejected at setup.

var c19TagAlpha = []string{"a", ":", "\"", "\\", " ", "\n"}

// build a parser over struct{ F <type> `tag` } and return the setup error / the first option.
func c19Parse(fields []reflect.StructField) (p *flags.Parser, err error, panicked interface{}) {
	defer func() {
		if r := recover(); r != nil {
			panicked = r
		}
	}()
	t := reflect.StructOf(fields)
	v := reflect.New(t)
	p = flags.NewParser(v.Interface(), flags.None)
	if len(fields) > 0 && len(fields[0].Tag)%2 == 0 {
		// on half of the declarations the program goes on building before the first use: a well-formed group added with
		// AddGroup must not make an error of the declaration above disappear
		p.AddGroup("Added Later", "", &struct {
			Zq bool `long:"zq-added-later"`
		}{})
	}
	_, err = p.ParseArgs(nil)
	if isErrType(err, flags.ErrRequired) || isErrType(err, flags.ErrCommandRequired) {
		err = nil // the empty command line lacks a required item: a parse result, not a setup error
	}
	if err != nil {
		// a declaration error is replayed by every later use of the parser: a program that logs the first error and
		// carries on must not find a parser that works on a misread declaration
		if _, err2 := p.ParseArgs(nil); err2 == nil || fmt.Sprint(err2) != fmt.Sprint(err) {
			c19Forgot = fmt.Sprintf("first use: %v; second use: %v", err, err2)
		}
		c19Replayed++
	}
	return p, err, nil
}

var c19Forgot string // set by c19Parse when the second use of a parser does not repeat the declaration error of the first
var c19Replayed int

func isErrType(err error, t flags.ErrorType) bool {
	fe, ok := err.(*flags.Error)
	return ok && fe.Type == t
}

var c19Values = []string{"plain", " padded ", "with space", `q"uote`, `back\slash`, "line\nbreak", "A", "é", "tab\there", "日本", "", ":", "a:b c", `\"`, "x", "ends\\"}

// render a value as a Go string literal in one of three ways
func c19Render(v string, how int) string {
	switch how {
	case 0:
		return strconv.Quote(v)
	case 1:
		var b strings.Builder
		b.WriteByte('"')
		for i := 0; i < len(v); i++ {
			fmt.Fprintf(&b, `\x%02x`, v[i])
		}
		b.WriteByte('"')
		return b.String()
	default:
		var b strings.Builder
		b.WriteByte('"')
		for _, r := range v {
			switch {
			case r == '"' || r == '\\':
				b.WriteByte('\\')
				b.WriteRune(r)
			case r == '\n' || r == '\r':
				fmt.Fprintf(&b, `\%03o`, r)
			case r < ' ':
				b.WriteRune(r) // a raw control character (TAB …) inside the quotes is legal in a struct tag
			case r > 0x7f:
				b.WriteRune(r) // raw non-ASCII
			default:
				b.WriteRune(r)
			}
		}
		b.WriteByte('"')
		return b.String()
	}
}

type c19Attr struct {
	key   string
	multi bool
	get   func(o *flags.Option) interface{}
}

var c19OptAttrs = []c19Attr{
	{"long", false, func(o *flags.Option) interface{} { return o.LongName }},
	{"description", false, func(o *flags.Option) interface{} { return o.Description }},
	{"default", true, func(o *flags.Option) interface{} { return o.Default }},
	{"env", false, func(o *flags.Option) interface{} { return o.EnvDefaultKey }},
	{"env-delim", false, func(o *flags.Option) interface{} { return o.EnvDefaultDelim }},
	{"optional-value", true, func(o *flags.Option) interface{} { return o.OptionalValue }},
	{"value-name", false, func(o *flags.Option) interface{} { return o.ValueName }},
	{"default-mask", false, func(o *flags.Option) interface{} { return o.DefaultMask }},
	{"choice", true, func(o *flags.Option) interface{} { return o.Choices }},
}

func firstOption(p *flags.Parser) *flags.Option {
	for _, g := range p.Groups() {
		if len(g.Options()) > 0 {
			return g.Options()[0]
		}
		for _, gg := range g.Groups() {
			if len(gg.Options()) > 0 {
				return gg.Options()[0]
			}
		}
	}
	return nil
}

func init() {
	strT := reflect.TypeOf("")
	boolT := reflect.TypeOf(false)
	sfield := func(name string, t reflect.Type, tag string) reflect.StructField {
		return reflect.StructField{Name: name, Type: t, Tag: reflect.StructTag(tag)}
	}
	body := func(c *explore.Ctx) {
		defer func() {
			if c19Replayed > 0 {
				c.Hit("declaration-error-asked-twice")
				c19Replayed = 0
			}
			if c19Forgot != "" {
				c.Fail("declaration-error-not-repeated-by-the-next-use", c19Forgot)
				c19Forgot = ""
			}
		}()
		switch part := c.Choose(7); part {
		case 6: // namespaces the program sets on the parser, on commands and on groups through their public fields
			if c.Bool() {
				c19StructInGroup(c)
				return
			}
			c19ApiNamespaces(c)
		case 0: // every short tag string over the scanner-relevant bytes
			maxLen := 8
			if c.Thorough {
				maxLen = 9
			}
			n := c.Choose(maxLen + 1)
			tag := ""
			for i := 0; i < n; i++ {
				tag += c19TagAlpha[c.Choose(len(c19TagAlpha))]
			}
			withOpt := c.Bool() // also carry a well-formed option attribute in front
			full := tag
			if withOpt {
				full = `long:"opt" ` + tag
			}
			c.Describe(func() interface{} { return map[string]interface{}{"part": "tag-strings", "tag": full} })
			pairs, class := ref.ParseTag(full)
			p, err, pan := c19Parse([]reflect.StructField{sfield("F", strT, full)})
			if pan != nil {
				c.Fail("panic-on-tag|"+panicClass(pan), fmt.Sprint(pan))
				return
			}
			c.Outcome("tag", fmt.Sprint(class), errType(err))
			if class == ref.TagReject && n <= 5 && !withOpt {
				// the same malformed tag on a field of a positional-args struct is no less malformed
				pos := reflect.StructOf([]reflect.StructField{sfield("A", strT, full), sfield("B", strT, "")})
				_, perr, ppan := c19Parse([]reflect.StructField{sfield("Args", pos, `positional-args:"yes"`)})
				if ppan != nil {
					c.Fail("panic-on-tag|positional|"+panicClass(ppan), fmt.Sprint(ppan))
					return
				}
				if !isErrType(perr, flags.ErrTag) {
					c.Fail("malformed-tag-not-ErrTag|positional-field|"+errType(perr), fmt.Sprint(perr))
				}
			}
			switch class {
			case ref.TagReject:
				c.Hit("tag-reject")
				if !isErrType(err, flags.ErrTag) {
					c.Fail("malformed-tag-not-ErrTag|"+errType(err), fmt.Sprint(err))
				}
			case ref.TagAccept:
				c.Hit("tag-accept")
				if err != nil {
					c.Fail("well-formed-tag-rejected|"+errType(err), fmt.Sprint(err))
					return
				}
				if withOpt {
					o := firstOption(p)
					want := "opt"
					for _, pr := range pairs {
						if pr.Key == "long" {
							want = pr.Value
						}
					}
					if o == nil || o.LongName != want {
						c.Fail("option-misread-next-to-odd-tag", map[string]interface{}{"want_long": want})
					}
				}
			default:
				c.Hit("tag-grey")
				if err != nil {
					if _, ok := err.(*flags.Error); !ok {
						c.Fail("grey-tag-foreign-error", fmt.Sprint(err))
					}
				}
			}
		case 1: // attribute echo: key x value x rendering x repetition x blanks
			a := c19OptAttrs[c.Choose(len(c19OptAttrs))]
			vi := c.Choose(len(c19Values))
			how := c.Choose(3)
			reps := 1 + c.Choose(3)
			blanks := 1 + c.Choose(3)
			val := c19Values[vi]
			var parts []string
			var wantMulti []string
			for i := 0; i < reps; i++ {
				v := val
				if a.multi && i > 0 {
					v = val + strconv.Itoa(i)
				}
				parts = append(parts, a.key+":"+c19Render(v, how))
				wantMulti = append(wantMulti, v)
			}
			tag := strings.Join(parts, strings.Repeat(" ", blanks))
			if a.key != "long" {
				tag = `long:"opt"` + strings.Repeat(" ", blanks) + tag
			}
			c.Describe(func() interface{} { return map[string]interface{}{"part": "attribute-echo", "tag": tag} })
			if _, cl := ref.ParseTag(tag); cl != ref.TagAccept {
				c.Fail("harness-rendering-not-wellformed", tag)
				return
			}
			p, err, pan := c19Parse([]reflect.StructField{sfield("F", strT, tag)})
			if pan != nil {
				c.Fail("panic-on-tag|"+panicClass(pan), fmt.Sprint(pan))
				return
			}
			c.Outcome("echo", a.key, fmt.Sprint(vi), fmt.Sprint(how), errType(err))
			if a.key == "long" && val == "" {
				return // an empty long name makes the field no option at all
			}
			if err != nil {
				c.Fail("well-formed-tag-rejected|"+errType(err), fmt.Sprint(err))
				return
			}
			o := firstOption(p)
			if o == nil {
				c.Fail("option-missing", tag)
				return
			}
			c.Hit("echo:" + a.key)
			got := a.get(o)
			if a.multi {
				if !reflect.DeepEqual(got, wantMulti) {
					c.Fail("attribute-misread|"+a.key, map[string]interface{}{"want": wantMulti, "got": got})
				}
			} else if got != val {
				c.Fail("attribute-misread|"+a.key, map[string]interface{}{"want": val, "got": got})
			}
		case 2: // marks and short names
			key := []string{"required", "optional", "hidden"}[c.Choose(3)]
			sp := []string{"yes", "true", "1", "x", "TRUE", "false", "no", "0", "-"}[c.Choose(9)]
			present := c.Bool()
			short := []string{"", "s", "é", "ab", "éé", "€", "sé"}[c.Choose(7)]
			tag := `long:"opt"`
			if short != "" || c.Bool() {
				tag += " short:" + strconv.Quote(short)
			}
			if present {
				tag += " " + key + ":" + strconv.Quote(sp)
			}
			c.Describe(func() interface{} { return map[string]interface{}{"part": "marks", "tag": tag} })
			p, err, pan := c19Parse([]reflect.StructField{sfield("F", strT, tag)})
			if pan != nil {
				c.Fail("panic-on-tag|"+panicClass(pan), fmt.Sprint(pan))
				return
			}
			c.Outcome("marks", tag, errType(err))
			if utf8.RuneCountInString(short) > 1 {
				c.Hit("short-too-long")
				if !isErrType(err, flags.ErrShortNameTooLong) {
					c.Fail("long-short-name-not-reported|"+errType(err), fmt.Sprint(err))
				}
				return
			}
			if err != nil {
				c.Fail("well-formed-tag-rejected|"+errType(err), fmt.Sprint(err))
				return
			}
			o := firstOption(p)
			if o == nil {
				c.Fail("option-missing", tag)
				return
			}
			wantShort := rune(0)
			if short != "" {
				wantShort, _ = utf8.DecodeRuneInString(short)
			}
			if o.ShortName != wantShort {
				c.Fail("short-name-misread", map[string]interface{}{"want": string(wantShort), "got": string(o.ShortName)})
			}
			want := present && !(sp == "false" || sp == "no" || sp == "0")
			var got bool
			switch key {
			case "required":
				got = o.Required
			case "optional":
				got = o.OptionalArgument
			case "hidden":
				got = o.Hidden
			}
			c.Hit("mark:" + key)
			if got != want {
				c.Fail("mark-misread|"+key, map[string]interface{}{"spelling": sp, "present": present, "got": got})
			}
			for _, other := range []struct {
				k string
				v bool
			}{{"required", o.Required}, {"optional", o.OptionalArgument}, {"hidden", o.Hidden}} {
				if other.k != key && other.v {
					c.Fail("mark-set-without-tag|"+other.k, tag)
				}
			}
		case 3: // groups, commands, positionals
			vi := c.Choose(len(c19Values))
			val := c19Values[vi]
			if val == "" {
				c.Skip()
			}
			how := c.Choose(3)
			what := c.Choose(9)
			nAlias := c.Choose(4)
			inner := reflect.StructOf([]reflect.StructField{sfield("X", strT, `long:"x"`)})
			posInner := reflect.StructOf([]reflect.StructField{sfield("A", strT, ""), sfield("R", reflect.TypeOf([]string{}), "")})
			var fields []reflect.StructField
			var verify func(p *flags.Parser) (string, interface{}, interface{})
			rv := c19Render(val, how)
			switch what {
			case 0:
				fields = []reflect.StructField{sfield("G", inner, "group:"+rv)}
				verify = func(p *flags.Parser) (string, interface{}, interface{}) {
					g := p.Groups()[0].Groups()
					if len(g) != 1 {
						return "group-missing", 1, len(g)
					}
					return "group-name", val, g[0].ShortDescription
				}
			case 1:
				// a namespaced group holding an option and a nested group without namespace; a top-level --y is legal next to <ns>.y
				plain := reflect.StructOf([]reflect.StructField{sfield("Y", strT, `long:"y"`)})
				outer := reflect.StructOf([]reflect.StructField{sfield("X", strT, `long:"x"`), sfield("P", plain, `group:"Plain"`)})
				fields = []reflect.StructField{sfield("G", outer, `group:"G" namespace:`+rv), sfield("TopY", strT, `long:"y"`)}
				verify = func(p *flags.Parser) (string, interface{}, interface{}) {
					g := p.Groups()[0].Groups()[0]
					if g.Namespace != val {
						return "namespace", val, g.Namespace
					}
					if got := g.Options()[0].LongNameWithNamespace(); got != val+".x" {
						return "namespaced-long-name", val + ".x", got
					}
					if len(g.Groups()) != 1 || len(g.Groups()[0].Options()) != 1 {
						return "nested-plain-group", 1, len(g.Groups())
					}
					return "long-name-through-plain-nested-group", val + ".y", g.Groups()[0].Options()[0].LongNameWithNamespace()
				}
			case 2:
				fields = []reflect.StructField{sfield("G", reflect.StructOf([]reflect.StructField{sfield("X", strT, `long:"x" env:"K"`)}), `group:"G" env-namespace:`+rv)}
				verify = func(p *flags.Parser) (string, interface{}, interface{}) {
					g := p.Groups()[0].Groups()[0]
					if g.EnvNamespace != val {
						return "env-namespace", val, g.EnvNamespace
					}
					return "namespaced-env-key", val + "_" + "K", g.Options()[0].EnvKeyWithNamespace()
				}
			case 3:
				tag := "command:" + rv
				var al []string
				for i := 0; i < nAlias; i++ {
					a := val + strconv.Itoa(i)
					al = append(al, a)
					tag += " alias:" + c19Render(a, how)
				}
				fields = []reflect.StructField{sfield("C", inner, tag)}
				verify = func(p *flags.Parser) (string, interface{}, interface{}) {
					cs := p.Commands()
					if len(cs) != 1 {
						return "command-missing", 1, len(cs)
					}
					if cs[0].Name != val {
						return "command-name", val, cs[0].Name
					}
					if len(al) == 0 && len(cs[0].Aliases) == 0 {
						return "aliases", nil, nil
					}
					return "aliases", al, cs[0].Aliases
				}
			case 4:
				fields = []reflect.StructField{sfield("C", inner, `command:"cmd" description:`+rv+` long-description:`+c19Render(val+"L", how))}
				verify = func(p *flags.Parser) (string, interface{}, interface{}) {
					cm := p.Commands()[0]
					if cm.ShortDescription != val {
						return "command-description", val, cm.ShortDescription
					}
					return "command-long-description", val + "L", cm.LongDescription
				}
			case 5:
				fields = []reflect.StructField{sfield("Args", reflect.StructOf([]reflect.StructField{
					sfield("A", strT, "positional-arg-name:"+rv+" description:"+c19Render(val+"D", how)+` required:"3-4"`),
					sfield("B", strT, ""),
					sfield("R", reflect.TypeOf([]string{}), `required:"2-5"`)}), `positional-args:"yes"`)}
				verify = func(p *flags.Parser) (string, interface{}, interface{}) {
					as := p.Args()
					if len(as) != 3 {
						return "positional-count", 3, len(as)
					}
					if as[0].Required != 3 || as[0].RequiredMaximum != 4 {
						return "positional-own-range", [2]int{3, 4}, [2]int{as[0].Required, as[0].RequiredMaximum}
					}
					if as[1].Name != "B" || as[1].Required != -1 || as[1].RequiredMaximum != -1 {
						return "positional-without-marks", [3]interface{}{"B", -1, -1}, [3]interface{}{as[1].Name, as[1].Required, as[1].RequiredMaximum}
					}
					as = []*flags.Arg{as[0], as[2]}
					if as[0].Name != val {
						return "positional-name", val, as[0].Name
					}
					if as[0].Description != val+"D" {
						return "positional-description", val + "D", as[0].Description
					}
					if as[1].Name != "R" {
						return "positional-default-name", "R", as[1].Name
					}
					return "positional-range", [2]int{2, 5}, [2]int{as[1].Required, as[1].RequiredMaximum}
				}
			case 8:
				// the marks of a command field: any non-empty value sets them (a value of one character too)
				fields = []reflect.StructField{sfield("C", reflect.StructOf([]reflect.StructField{sfield("X", strT, `long:"x"`), sfield("S", inner, `command:"sub"`)}),
					`command:"cmd" subcommands-optional:`+rv+` hidden:`+rv)}
				verify = func(p *flags.Parser) (string, interface{}, interface{}) {
					cm := p.Commands()[0]
					if !cm.SubcommandsOptional {
						return "command-subcommands-optional-mark", true, false
					}
					return "command-hidden-mark", true, cm.Hidden
				}
			case 7:
				// two commands declared in non-alphabetical order: the public list keeps the declaration order, also after
				// the parse that asks for a command (which sorts names for its message)
				fields = []reflect.StructField{sfield("Z", inner, "command:"+c19Render("z"+val, how)), sfield("A", inner, "command:"+c19Render("a"+val, how)+` alias:"zz"`)}
				verify = func(p *flags.Parser) (string, interface{}, interface{}) {
					cs := p.Commands()
					if len(cs) != 2 {
						return "commands", 2, len(cs)
					}
					return "command-order", []string{"z" + val, "a" + val}, []string{cs[0].Name, cs[1].Name}
				}
			case 6:
				n := vi % 5 // 0..4: a count of zero is a count like any other
				fields = []reflect.StructField{sfield("Args", posInner, `positional-args:"yes"`)}
				pi := reflect.StructOf([]reflect.StructField{sfield("A", strT, ""), sfield("R", reflect.TypeOf([]string{}), fmt.Sprintf(`required:"%d"`, n))})
				fields = []reflect.StructField{sfield("Args", pi, `positional-args:"yes" required:"yes"`)}
				verify = func(p *flags.Parser) (string, interface{}, interface{}) {
					as := p.Args()
					if len(as) != 2 {
						return "positional-count", 2, len(as)
					}
					if !p.ArgsRequired {
						return "positional-required-mark", true, false
					}
					return "positional-minimum", [2]int{n, -1}, [2]int{as[1].Required, as[1].RequiredMaximum}
				}
			}
			c.Describe(func() interface{} {
				return map[string]interface{}{"part": "groups-commands-positionals", "field_tag": string(fields[0].Tag), "what": what}
			})
			p, err, pan := c19Parse(fields)
			if pan != nil {
				c.Fail("panic-on-tag|"+panicClass(pan), fmt.Sprint(pan))
				return
			}
			c.Outcome("structure", fmt.Sprint(what), fmt.Sprint(vi), fmt.Sprint(how), errType(err))
			if err != nil {
				if isErrType(err, flags.ErrCommandRequired) {
					err = nil // a declared command makes a command mandatory: not a setup error
				}
			}
			if err != nil {
				c.Fail("well-formed-declaration-rejected|"+errType(err), fmt.Sprint(err))
				return
			}
			c.Hit("structure")
			if what, want, got := verify(p); !reflect.DeepEqual(want, got) {
				c.Fail("attribute-misread|"+what, map[string]interface{}{"want": want, "got": got})
			}
		case 4: // collisions
			kind := c.Choose(2)   // 0 long, 1 short
			placeA := c.Choose(4) // top, plain subgroup, namespaced subgroup, nested namespaced subgroup
			placeB := c.Choose(4)
			collide := c.Choose(3) // 0 same name, 1 near miss (different), 2 collision created by namespaces
			nameOf := func(place int, base string) (string, string) {
				// returns (long tag value, effective namespaced long name)
				switch place {
				case 2:
					return base, "n." + base
				case 3:
					return base, "n.m." + base
				}
				return base, base
			}
			mk := func(field string, place int, long, short string) (reflect.StructField, bool) {
				tag := ""
				if long != "" {
					tag += "long:" + strconv.Quote(long) + " "
				}
				if short != "" {
					tag += "short:" + strconv.Quote(short)
				}
				f := sfield(field, strT, strings.TrimSpace(tag))
				switch place {
				case 0:
					return f, false
				case 1:
					return sfield("G"+field, reflect.StructOf([]reflect.StructField{f}), `group:"plain`+field+`"`), true
				case 2:
					return sfield("G"+field, reflect.StructOf([]reflect.StructField{f}), `group:"ns`+field+`" namespace:"n"`), true
				default:
					in := sfield("H"+field, reflect.StructOf([]reflect.StructField{f}), `group:"in`+field+`" namespace:"m"`)
					return sfield("G"+field, reflect.StructOf([]reflect.StructField{in}), `group:"out`+field+`" namespace:"n"`), true
				}
			}
			var la, lb, sa, sb string
			dup := false
			if kind == 0 {
				_, ea := nameOf(placeA, "name")
				switch collide {
				case 0:
					la, lb = "name", "name"
					_, eb := nameOf(placeB, "name")
					dup = ea == eb
				case 1:
					la, lb = "name", "Name"
				case 2:
					// make B's effective name equal A's through the long tag itself: A = n.m.name (place 3) vs B long "m.name" in place 2, etc.
					la = "name"
					switch {
					case placeA == 3 && placeB == 2:
						lb = "m.name"
					case placeA == 2 && placeB == 0:
						lb = "n.name"
					case placeA == 3 && placeB == 0:
						lb = "n.m.name"
					case placeA == 2 && placeB == 1:
						lb = "n.name"
					default:
						c.Skip()
					}
					dup = true
				}
			} else {
				la, lb = "aa", "bb"
				switch collide {
				case 0:
					sa, sb = "s", "s"
					dup = true
				case 1:
					sa, sb = "s", "S"
				case 2:
					sa, sb = "é", "é"
					dup = true
				}
			}
			fa, _ := mk("A", placeA, la, sa)
			fb, _ := mk("B", placeB, lb, sb)
			viaGroupAPI := c.Bool() // add the declaration through (*Group).AddGroup on an existing group instead of NewParser
			customDelim := c.Bool() // NewNamedParser + NamespaceDelimiter "-" set before AddGroup: namespaced names are joined with it
			inCommand := !viaGroupAPI && !customDelim && c.Bool()
			c.Describe(func() interface{} {
				return map[string]interface{}{"part": "collisions", "A": fmt.Sprintf("place %d long %q short %q", placeA, la, sa), "B": fmt.Sprintf("place %d long %q short %q", placeB, lb, sb), "duplicate": dup}
			})
			var err error
			var pan interface{}
			if customDelim {
				if viaGroupAPI || kind != 0 || collide != 2 {
					c.Skip()
				}
				// with the delimiter "-": group namespace n + long name -> "n-name"; B's long tag is rewritten accordingly
				lb = strings.ReplaceAll(lb, ".", "-")
				fb, _ = mk("B", placeB, lb, sb)
				func() {
					defer func() { pan = recover() }()
					p := flags.NewNamedParser("app", flags.None)
					p.NamespaceDelimiter = "-"
					_, err = p.AddGroup("Decl", "", reflect.New(reflect.StructOf([]reflect.StructField{fa, fb})).Interface())
				}()
			} else if viaGroupAPI {
				func() {
					defer func() { pan = recover() }()
					p := flags.NewNamedParser("app", flags.None)
					host, e := p.AddGroup("Host", "", reflect.New(reflect.StructOf([]reflect.StructField{sfield("H", strT, `long:"hostopt"`)})).Interface())
					if e != nil {
						err = e
						return
					}
					_, err = host.AddGroup("Added", "", reflect.New(reflect.StructOf([]reflect.StructField{fa, fb})).Interface())
				}()
			} else if inCommand {
				// the two declarations sit on a subcommand's struct (and in its groups): a collision is one all the same
				_, err, pan = c19Parse([]reflect.StructField{sfield("Cmd", reflect.StructOf([]reflect.StructField{fa, fb}), `command:"cmd"`)})
			} else {
				_, err, pan = c19Parse([]reflect.StructField{fa, fb})
			}
			if pan != nil {
				c.Fail("panic-on-declaration|"+panicClass(pan), fmt.Sprint(pan))
				return
			}
			c.Outcome("collision", fmt.Sprint(kind, placeA, placeB, collide, viaGroupAPI), errType(err))
			if dup {
				c.Hit("duplicate")
				if !isErrType(err, flags.ErrDuplicatedFlag) {
					c.Fail("duplicate-not-reported|"+[]string{"long", "short"}[kind]+"|"+errType(err), fmt.Sprint(err))
				}
			} else {
				c.Hit("near-collision")
				if err != nil {
					c.Fail("legal-declaration-rejected|"+errType(err), fmt.Sprint(err))
				}
			}
		case 5: // defaults on boolean flags
			t := []reflect.Type{boolT, reflect.TypeOf([]bool{}), reflect.TypeOf((*bool)(nil)), strT, reflect.TypeOf([]string{}),
				reflect.TypeOf([]*bool{}), reflect.TypeOf((**bool)(nil)), reflect.TypeOf((*[]bool)(nil)), reflect.TypeOf(func() {}),
				// bool-kinded, but with an Unmarshaler of their own (pointer receiver): they take an argument, so a default is legal
				reflect.TypeOf(decl.OnOff(false)), reflect.TypeOf([]decl.OnOff{}), reflect.TypeOf((*decl.OnOff)(nil))}[c.Choose(12)]
			n := c.Choose(3)
			tag := `long:"flag"`
			takesArgument := strings.Contains(t.String(), "OnOff")
			for i := 0; i < n; i++ {
				if takesArgument {
					tag += ` default:"on"`
				} else {
					tag += ` default:"true"`
				}
			}
			c.Describe(func() interface{} {
				return map[string]interface{}{"part": "bool-default", "type": t.String(), "tag": tag}
			})
			_, err, pan := c19Parse([]reflect.StructField{sfield("F", t, tag)})
			if pan != nil {
				c.Fail("panic-on-declaration|"+panicClass(pan), fmt.Sprint(pan))
				return
			}
			c.Outcome("booldefault", t.String(), fmt.Sprint(n), errType(err))
			isBool := t != strT && t.String() != "[]string" && !takesArgument
			if isBool && n > 0 {
				c.Hit("bool-default")
				if !isErrType(err, flags.ErrInvalidTag) {
					c.Fail("bool-default-not-reported|"+errType(err), fmt.Sprint(err))
				}
			} else if err != nil {
				c.Fail("legal-declaration-rejected|"+errType(err), fmt.Sprint(err))
			}
		}
	}
	explore.Register(&explore.Check{
		ID:         "C19",
		Level:      "exploration",
		ShardDepth: 3,
		Body:       body,
		Rule: "(i) every tag string of length <= 8 (quick) / <= 9 (thorough) over {a : \" \\ space LF}, alone and behind a well-formed long:\"opt\", classified by a reference tag grammar (accept / reject / grey); " +
			"(ii) 9 option attributes x 15 values (blanks, quotes, backslashes, line breaks, tabs, multi-byte text, empty, colons) x 3 escape renderings (strconv.Quote, all-\\xNN, octal+raw) x 1..3 repetitions x 1..3 blanks; " +
			"(iii) required/optional/hidden x 9 spellings x present/absent x short names of 0/1/2 characters incl. multi-byte; (iv) group name/namespace/env-namespace, command name + 0..3 aliases, two commands in non-alphabetical order (Commands() keeps the declaration order), a command field's subcommands-optional and hidden marks (set by any non-empty value, also of one character), descriptions, positional names, ranges and minimum counts (0..4) x values x renderings; " +
			"(v) every pair of placements {top, plain subgroup, namespaced, doubly namespaced} x {same name, near miss, collision created by namespaces} x {long, short incl. non-ASCII} x {declared through NewParser, on a subcommand's struct, added with (*Group).AddGroup to an existing group, NewNamedParser with NamespaceDelimiter \"-\" set before AddGroup}; (malformed tag strings of <= 5 bytes also on a field of a positional-args struct; every declaration whose first field's tag has an even length is followed by a successful AddGroup before the first use: a setup error must survive it); (vi) default tags on bool / []bool / *bool / []*bool / **bool / *[]bool / func() vs string types; " +
			"oracle: exported model fields echo the attributes exactly, malformed tags => ErrTag, long short name => ErrShortNameTooLong, bool default => ErrInvalidTag, colliding names => ErrDuplicatedFlag, never a panic; distinct = distinct (part, cell, error class)",
		Assumptions:  []string{"keys containing control characters or backslashes, and empty keys, are grey (no panic, any error typed)", "single-valued keys are repeated with the same value only", "falsy spellings false/no/0 do not set a mark on options (pinned by the repository's tests)"},
		RequiredHits: []string{"declaration-error-asked-twice", "api-namespaces", "struct-inside-a-group", "tag-reject", "tag-accept", "tag-grey", "echo:default", "echo:choice", "mark:required", "short-too-long", "structure", "duplicate", "near-collision", "bool-default"},
		Bound:        [2]string{"tag strings <= 8", "tag strings <= 9"},
		BudgetS:      [2]int{170, 1500},
	})
}

func panicClass(p interface{}) string {
	s := fmt.Sprint(p)
	if i := strings.Index(s, ":"); i > 0 && i < 40 {
		s = s[:i]
	}
	if len(s) > 40 {
		s = s[:40]
	}
	return s
}

// c19ApiNamespaces: group namespaces are part of the public model whichever way they were given. The parser, a command,
// its subcommand and a group of that subcommand get a namespace through their exported Namespace field (any subset of the
// four, two delimiters); every option's LongNameWithNamespace is the join, outermost first, of the namespaces around it.
func c19ApiNamespaces(c *explore.Ctx) {
	mask := c.Choose(16)
	delim := []string{".", "::"}[c.Choose(2)]
	type opts struct {
		X bool `long:"xopt"`
	}
	p := flags.NewNamedParser("app", flags.None)
	p.NamespaceDelimiter = delim
	top, err := p.AddGroup("Top", "", &opts{})
	if err != nil {
		c.Fail("setup-error", err.Error())
		return
	}
	add, err := p.AddCommand("add", "", "", &opts{})
	if err != nil {
		c.Fail("setup-error", err.Error())
		return
	}
	sub, err := add.AddCommand("sub", "", "", &opts{})
	if err != nil {
		c.Fail("setup-error", err.Error())
		return
	}
	grp, err := sub.AddGroup("Grp", "", &struct {
		Y bool `long:"yopt"`
	}{})
	if err != nil {
		c.Fail("setup-error", err.Error())
		return
	}
	ns := []string{"", "", "", ""}
	if mask&1 != 0 {
		p.Namespace, ns[0] = "pn", "pn"
	}
	if mask&2 != 0 {
		add.Namespace, ns[1] = "an", "an"
	}
	if mask&4 != 0 {
		sub.Namespace, ns[2] = "sn", "sn"
	}
	if mask&8 != 0 {
		grp.Namespace, ns[3] = "gn", "gn"
	}
	join := func(parts ...string) string {
		var out []string
		for _, s := range parts {
			if s != "" {
				out = append(out, s)
			}
		}
		return strings.Join(out, delim)
	}
	c.Describe(func() interface{} {
		return map[string]interface{}{"part": "namespaces set through the API", "parser/add/sub/group": ns, "delimiter": delim}
	})
	c.Hit("api-namespaces")
	check := func(where string, o *flags.Option, want string) {
		if o == nil {
			c.Fail("attribute-misread|api-namespace|option-not-found", where)
			return
		}
		if got := o.LongNameWithNamespace(); got != want {
			c.Fail("attribute-misread|api-namespace", map[string]interface{}{"option_of": where, "want": want, "got": got})
		}
	}
	first := func(g *flags.Group) *flags.Option {
		if g == nil || len(g.Options()) == 0 {
			return nil
		}
		return g.Options()[0]
	}
	check("parser group", first(top), join(ns[0], "xopt"))
	check("command add", first(add.Group), join(ns[0], ns[1], "xopt"))
	check("subcommand sub", first(sub.Group), join(ns[0], ns[1], ns[2], "xopt"))
	check("group of sub", first(grp), join(ns[0], ns[1], ns[2], ns[3], "yopt"))
}

// c19StructInGroup: a struct field tagged `command` or `positional-args` that sits inside a group (directly, or in a group nested
// in a group). Either the declaration is read faithfully - the command / the positional arguments exist in the public model - or
// it is rejected when the parser is built or first used; reading the struct's fields as plain options of the group, or dropping
// it, is a silently mis-read declaration.
func c19StructInGroup(c *explore.Ctx) {
	sfield := func(name string, t reflect.Type, tag string) reflect.StructField {
		return reflect.StructField{Name: name, Type: t, Tag: reflect.StructTag(tag)}
	}
	which := c.Choose(2) // 0 command, 1 positional-args
	nested := c.Bool()   // inside a group that is itself inside a group
	pointer := c.Bool()  // the tagged field is a pointer to the struct
	boolT := reflect.TypeOf(false)
	inner := reflect.StructOf([]reflect.StructField{sfield("X", boolT, `long:"xx"`), sfield("A", reflect.TypeOf(""), "")})
	var ft reflect.Type = inner
	if pointer {
		ft = reflect.PtrTo(inner)
	}
	tag := `command:"sub"`
	if which == 1 {
		tag = `positional-args:"yes"`
	}
	grp := reflect.StructOf([]reflect.StructField{sfield("Y", boolT, `long:"yy"`), sfield("Sub", ft, tag)})
	if nested {
		grp = reflect.StructOf([]reflect.StructField{sfield("Z", boolT, `long:"zz"`), sfield("In", grp, `group:"Inner"`)})
	}
	fields := []reflect.StructField{sfield("V", boolT, `short:"v"`), sfield("G", grp, `group:"Grp"`)}
	c.Describe(func() interface{} {
		return map[string]interface{}{"part": "command / positional-args struct inside a group", "tag": tag, "group_nested_in_a_group": nested, "pointer_field": pointer}
	})
	p, err, pan := c19Parse(fields)
	if pan != nil {
		c.Fail("panic-on-tag|"+panicClass(pan), fmt.Sprint(pan))
		return
	}
	c.Hit("struct-inside-a-group")
	c.Outcome("struct-in-group", tag, fmt.Sprint(nested, pointer), errType(err))
	if err != nil {
		if _, ok := err.(*flags.Error); !ok {
			c.Fail("declaration-error-not-typed|"+errType(err), fmt.Sprint(err))
		}
		return // rejected at setup
	}
	if which == 0 {
		if p.Find("sub") == nil {
			c.Fail("command-inside-a-group-silently-read-as-plain-options", map[string]interface{}{"commands": len(p.Commands()), "xx_is_an_option_of_the_parser": p.FindOptionByLongName("xx") != nil})
		}
		return
	}
	if len(p.Args()) == 0 {
		c.Fail("positional-args-inside-a-group-silently-dropped", map[string]interface{}{"args": 0, "xx_is_an_option_of_the_parser": p.FindOptionByLongName("xx") != nil})
	}
}
