package checks

import (
	"fmt"
	"strings"

	flags "github.com/jessevdk/go-flags"

	"verif/mc/decl"
	"verif/mc/explore"
	"verif/mc/ref"
)

// C10 — positional arguments bind in declaration order.

var c10Scalars = []*decl.Type{decl.TString, decl.TInt, decl.TShout, decl.TMapSI} // Shout: a string kind whose only method is a pointer-receiver Unmarshaler

// the int field at an odd position of a layout carries base:"8" (so "7" converts, "-3" converts, "10" would be 8)
func c10Base(t *decl.Type, pos int) string {
	if t == decl.TInt && pos%2 == 1 {
		return "8"
	}
	return ""
}

var c10Slices = []*decl.Type{nil, decl.TStrings, decl.TInts, decl.TPStrs, decl.TUint8s}

var c10Units = [][]string{{"w"}, {"7"}, {"-3"}, {"-v"}, {"-s", "val"}, {"--"}, {"-x"}, {"cmd"}, {"-2"}, {"010"}, {"k:1"}, {`"7"`}, {"--str="}}

func c10Decl(types []int, slice int, owner int, popt int) *decl.Decl {
	pdd := popt&1 != 0
	mk := func() []*decl.PosArg {
		var pos []*decl.PosArg
		for i, t := range types {
			pos = append(pos, &decl.PosArg{Field: fmt.Sprintf("P%d", i), Type: c10Scalars[t], Base: c10Base(c10Scalars[t], i)})
		}
		if c10Slices[slice] != nil {
			pos = append(pos, &decl.PosArg{Field: "Rest", Type: c10Slices[slice]})
		}
		return pos
	}
	// -v sits in a group of the parser (on the API path that group may be added after the commands and after a first parse)
	top := &decl.Cmd{Name: "app", Groups: []*decl.Group{{Field: "LG", Name: "Late Group", Opts: []*decl.Opt{{Field: "Verbose", Short: "v", Long: "verbose", Type: decl.TBools}}}}, Opts: []*decl.Opt{
		{Field: "Str", Short: "s", Long: "str", Type: decl.TString},
		{Field: "Two", Short: "2", Long: "two", Type: decl.TBool}, // a digit as short name: -2 is this flag, never a negative number for a pending positional
	}}
	cmd := &decl.Cmd{Field: "Cmd", Name: "cmd"}
	top.Cmds = []*decl.Cmd{cmd}
	top.SubOptional = true
	switch owner {
	case 0:
		top.Pos = mk()
	case 1:
		cmd.Pos = mk()
	default: // both: the command's queue starts afresh when the command word is reached
		top.Pos = mk()
		cmd.Pos = mk()
	}
	d := &decl.Decl{Top: top}
	if pdd {
		d.Options = flags.PassDoubleDash
	}
	if popt&2 != 0 {
		d.Options |= flags.PassAfterNonOption
	}
	return d.Finish()
}

func init() {
	// all scalar type sequences of length 0..3
	var layouts [][]int
	var rec func(cur []int)
	rec = func(cur []int) {
		layouts = append(layouts, append([]int{}, cur...))
		if len(cur) == 3 {
			return
		}
		for t := range c10Scalars {
			if len(cur) == 2 && (t == 3 || cur[0] == 3 || cur[1] == 3) {
				continue // three-field layouts use the first three types only
			}
			rec(append(cur, t))
		}
	}
	rec(nil)
	cache := map[string]*decl.Decl{}
	body := func(c *explore.Ctx) {
		li := c.Choose(len(layouts))
		if li == 0 {
			switch c.Choose(5) {
			case 4:
				c10TagValue(c)
				return
			case 1:
				c10TwoStructs(c)
				return
			case 2:
				c10Unexported(c)
				return
			case 3:
				c10NilPointer(c)
				return
			}
		}
		si := c.Choose(len(c10Slices))
		owner := c.Choose(3)
		popt := c.Choose(4) // bit 0 PassDoubleDash, bit 1 PassAfterNonOption
		if si == 3 && (owner != 0 || popt == 0) {
			c.Skip() // the slice of pointers goes with the parser-owned layouts under the pass-through options
		}
		if si == 4 && (owner != 0 || popt > 1) {
			c.Skip() // the unsigned slice (010 is ten) goes with the parser-owned layouts
		}
		pdd := popt&1 != 0
		path := c.Choose(3) // 0 struct tags, 1 API, 2 API with the parser's group added after the commands and after two parses (sequences one unit shorter)
		api := path != 0
		maxDepth := 4
		if len(layouts[li]) >= 2 || popt >= 2 || owner == 2 {
			maxDepth = 3 // the larger declaration families go one unit less deep
		}
		if path == 2 {
			maxDepth--
		}
		if c.Thorough {
			maxDepth++
			if owner == 0 && api && popt == 1 && len(layouts[li]) < 3 {
				maxDepth = 6 // one declaration family goes one unit deeper still
			}
		}
		n := c.Choose(maxDepth + 1)
		var argv []string
		for i := 0; i < n; i++ {
			argv = append(argv, c10Units[c.Choose(len(c10Units))]...)
		}
		key := fmt.Sprintf("l%d/s%d/%v/%v", li, si, owner, popt)
		d := cache[key]
		if d == nil {
			if len(cache) > 100 {
				cache = map[string]*decl.Decl{}
			}
			d = c10Decl(layouts[li], si, owner, popt)
			cache[key] = d
		}
		c.Describe(func() interface{} {
			var ts []string
			for _, t := range layouts[li] {
				ts = append(ts, c10Scalars[t].Name)
			}
			if c10Slices[si] != nil {
				ts = append(ts, c10Slices[si].Name)
			}
			return map[string]interface{}{"positional_fields": ts, "owner(0 parser,1 command,2 both)": owner, "pass_double_dash": pdd, "pass_after_non_option": popt&2 != 0, "api_path": api, "group_added_after_commands_and_two_parses": path == 2, "argv": argv}
		})
		cfg := &ref.Config{D: d}
		res := ref.Run(cfg, argv)
		if msg := res.CheckInvariants(argv); msg != "" {
			c.Fail("model-invariant", msg)
			return
		}
		recordStates(c, key, res, nil)
		var b *decl.Built
		if path == 2 {
			c.Hit("late-built")
			b = d.BuildAPIWith(func(hb *decl.Built) {
				hb.Parser.ParseArgs([]string{"w"})
				hb.Parser.ParseArgs([]string{"cmd", "w"})
				for _, fc := range hb.Cmds {
					fc.Active = nil
				}
				rezero(hb)
			})
		} else if api {
			b = d.BuildAPI()
		} else {
			b = d.BuildTags()
		}
		if b.Err != nil {
			c.Fail("setup-error", b.Err.Error())
			return
		}
		rr := runParser(b, cfg, argv, runOpts{})
		if rr.Panic != nil {
			c.Fail("panic|"+rr.PanicSite, fmt.Sprint(rr.Panic))
			return
		}
		var shown []string
		for _, a := range append(append([]*decl.PosArg{}, d.Top.Pos...), d.Top.Cmds[0].Pos...) {
			shown = append(shown, ref.Show(b.PosVals[a]))
		}
		c.Outcome(key, errType(rr.Err), strings.Join(shown, ";"), strings.Join(rr.Rest, "\x01"))
		if res.Grey {
			return
		}
		if res.Fault != nil {
			c.Hit("model-fault")
			if res.Fault.Raw && res.Fault.Type == 0 {
				c.Hit("conversion-fault")
				// a token that cannot be converted to its field's type must not be accepted
				if rr.Err == nil {
					c.Fail("unconvertible-token-accepted", map[string]interface{}{"token": res.Fault.Token})
				}
			}
			return
		}
		if rr.Err != nil {
			c.Fail("valid-vector-rejected|"+errType(rr.Err), fmt.Sprint(rr.Err))
			return
		}
		c.Hit("compared")
		filled := 0
		for _, v := range res.Pos {
			filled += len(v)
		}
		if filled >= 3 {
			c.Hit("three-or-more-bound")
		}
		if pdd && contains(argv, "--") {
			c.Hit("after-terminator")
		}
		comparePositionals(c, b, res, "")
		if !sameStrings(rr.Rest, res.Rest) {
			c.Fail("overflow-to-rest", map[string]interface{}{"want": res.Rest, "got": rr.Rest})
		}
		if c.Failed() {
			return
		}
		// the declaration itself is not consumed by a parse: the public list of positional arguments is unchanged,
		// and parsing the same vector again on the same parser binds the same fields (scalar layouts; a slice field
		// keeps what the first parse appended, which no property speaks about)
		for cmdDecl, fc := range b.Cmds {
			if fc == nil {
				continue
			}
			var want, got []string
			for _, a := range cmdDecl.Pos {
				want = append(want, a.ShownName())
			}
			for _, a := range fc.Args() {
				got = append(got, a.Name)
			}
			if !sameStrings(want, got) {
				c.Fail("declared-positionals-changed-by-parse", map[string]interface{}{"command": cmdDecl.Name, "declared": want, "after_parse": got})
				return
			}
		}
		if c10Slices[si] == nil {
			c.Hit("second-parse")
			rr2 := runParser(b, cfg, argv, runOpts{})
			if rr2.Panic != nil {
				c.Fail("panic-on-second-parse|"+rr2.PanicSite, fmt.Sprint(rr2.Panic))
				return
			}
			if rr2.Err != nil {
				c.Fail("second-parse-of-same-vector-rejected|"+errType(rr2.Err), fmt.Sprint(rr2.Err))
				return
			}
			comparePositionals(c, b, res, "second-parse-")
			if !sameStrings(rr2.Rest, res.Rest) {
				c.Fail("second-parse-overflow-to-rest", map[string]interface{}{"want": res.Rest, "got": rr2.Rest})
			}
		}
	}
	explore.Register(&explore.Check{
		ID:         "C10",
		Level:      "model_checking",
		ShardDepth: 5,
		Body:       body,
		Rule: "(the parser's -v flag sits in a group of the parser; build paths: struct tags, API, API with that group added after the commands and after two parses on the half-built parser, sequences one unit shorter) positional layouts: every sequence of 0..3 scalar fields over {string, int, a string kind whose only method is a pointer-receiver Unmarshaler, map[string]int} (an int field at an odd position carries base:\"8\") x trailing slice {none, []string, []int, []*string (parser-owned layouts with a pass-through option), []uint8 (parser-owned layouts)} x owner {parser, command, both (the same layout on each)} x {None, PassDoubleDash, PassAfterNonOption, both} x {tags, API} " +
			"x every sequence of <= 4 units (<= 3 for layouts of two or three fields, PassAfterNonOption and both-owner declarations; thorough: one more everywhere, 6 for parser-owned layouts built through the API with PassDoubleDash) over {w, 7, -3, 010 (ten, or eight where the field says base 8), --str= (the empty value, attached), k:1, a quoted 7 (with its quotes: a positional is taken verbatim), -v, -s val, -2 (a declared flag with a digit as short name), --, -x, cmd}; oracle = CLM positional queue (field values after conversion, overflow into remaining arguments); beside that, four hand-built declarations (two positional-args structs on one parser; an unexported field between exported ones; the positional-args struct and a command behind nil pointers; the positional-args tag spelled y / 1 / true instead of yes, compared with the yes spelling on every vector of <= 4 tokens over {n, -v, 3, r}); after every accepted vector the public Args() list must still be the declared one and, for layouts without a slice, a second parse of the same vector on the same parser must bind the same fields",
		Assumptions:  []string{"conversion of the alphabet's tokens is taken from the conversion model (checked against the library by C11)"},
		RequiredHits: []string{"compared", "three-or-more-bound", "after-terminator", "conversion-fault", "second-parse", "late-built"},
		Bound:        [2]string{"all unit sequences of length <= 4", "all unit sequences of length <= 5 (<= 6 on one declaration family)"},
		BudgetS:      [2]int{170, 1500},
	})
}

// c10TwoStructs: two positional-args structs on one parser (an embedded shared one and the program's own): their fields
// form one queue in declaration order.
func c10TwoStructs(c *explore.Ctx) {
	type shared struct {
		X string
		Y int
	}
	var opts struct {
		Verbose []bool `short:"v"`
		First   shared `positional-args:"yes"`
		Second  struct {
			Z    string
			Rest []string
		} `positional-args:"yes"`
	}
	toks := []string{"a", "5", "b", "-v", "c"}
	n := c.Choose(6)
	var argv []string
	for i := 0; i < n; i++ {
		argv = append(argv, toks[c.Choose(len(toks))])
	}
	c.Describe(func() interface{} {
		return map[string]interface{}{"declaration": "two positional-args structs: {X string; Y int} and {Z string; Rest []string}", "argv": argv}
	})
	p := flags.NewParser(&opts, flags.None)
	var rest []string
	var err error
	func() {
		defer func() {
			if r := recover(); r != nil {
				c.Fail("panic|"+explore.PanicSite(), fmt.Sprint(r))
			}
		}()
		rest, err = p.ParseArgs(argv)
	}()
	if c.Failed() {
		return
	}
	// reference queue
	var plain []string
	for _, a := range argv {
		if a != "-v" {
			plain = append(plain, a)
		}
	}
	want := [3]string{}
	wantY, wantErr := 0, false
	var wantRest []string
	for i, t := range plain {
		switch i {
		case 0:
			want[0] = t
		case 1:
			if t == "5" {
				wantY = 5
			} else {
				wantErr = true
			}
		case 2:
			want[2] = t
		default:
			wantRest = append(wantRest, t)
		}
		if wantErr {
			break
		}
	}
	c.Outcome("two-structs", fmt.Sprint(err != nil), opts.First.X, fmt.Sprint(opts.First.Y), opts.Second.Z, strings.Join(opts.Second.Rest, ","))
	c.Hit("two-positional-structs")
	if wantErr {
		if err == nil {
			c.Fail("unconvertible-token-accepted", map[string]interface{}{"argv": argv})
		}
		return
	}
	if err != nil {
		c.Fail("valid-vector-rejected|"+errType(err), fmt.Sprint(err))
		return
	}
	got := [3]string{opts.First.X, "", opts.Second.Z}
	if got != want || opts.First.Y != wantY || !sameStrings(opts.Second.Rest, wantRest) || len(rest) != 0 {
		c.Fail("positional|two-structs", map[string]interface{}{"want": fmt.Sprint(want[0], wantY, want[2], wantRest), "got": fmt.Sprint(opts.First.X, opts.First.Y, opts.Second.Z, opts.Second.Rest), "rest": rest})
	}
}

// c10Unexported: a positional-args struct with an unexported field between two exported ones. The library cannot set it;
// it must not crash on it either, and the exported fields bind in declaration order.
func c10Unexported(c *explore.Ctx) {
	var opts struct {
		Args struct {
			A string
			b string
			C string
		} `positional-args:"yes"`
	}
	_ = opts.Args.b
	toks := []string{"1", "2", "3"}
	n := c.Choose(4)
	argv := toks[:n]
	c.Describe(func() interface{} {
		return map[string]interface{}{"declaration": "positional-args struct {A string; b string (unexported); C string}", "argv": argv}
	})
	p := flags.NewParser(&opts, flags.None)
	var rest []string
	var err error
	func() {
		defer func() {
			if r := recover(); r != nil {
				c.Fail("panic|"+explore.PanicSite(), map[string]interface{}{"panic": fmt.Sprint(r), "note": "positional-args struct with an unexported field"})
			}
		}()
		rest, err = p.ParseArgs(argv)
	}()
	if c.Failed() {
		return
	}
	c.Hit("unexported-positional-field")
	want := []string{"", "", ""}
	copy(want, argv)
	if err != nil {
		c.Fail("valid-vector-rejected|"+errType(err), fmt.Sprint(err))
		return
	}
	if opts.Args.A != want[0] || opts.Args.C != want[1] || len(rest) != len(argv)-min2(len(argv), 2) {
		c.Fail("positional|unexported-field-between", map[string]interface{}{"A": opts.Args.A, "C": opts.Args.C, "rest": rest})
	}
}

func min2(a, b int) int {
	if a < b {
		return a
	}
	return b
}

// c10NilPointer: the positional-args struct (and a command with positionals of its own) hang off nil pointers of the
// program's struct. The library allocates them; what it binds has to be reachable through the program's struct afterwards.
func c10NilPointer(c *explore.Ctx) {
	type posArgs struct {
		Name string
		Rest []string
	}
	type subCmd struct {
		Args struct {
			File string
		} `positional-args:"yes"`
	}
	var opts struct {
		Verbose []bool   `short:"v"`
		Args    *posArgs `positional-args:"yes"`
	}
	var optsCmd struct {
		Verbose []bool  `short:"v"`
		Sub     *subCmd `command:"sub"`
	}
	which := c.Choose(2)
	argv := [][]string{{"a", "-v", "b", "c"}, {"sub", "f"}}[which]
	c.Describe(func() interface{} {
		return map[string]interface{}{"declaration": "Args *struct{Name string; Rest []string} positional-args; Sub *struct{Args struct{File string}} command:sub (both pointers nil)", "argv": argv}
	})
	p := flags.NewParser(&opts, flags.None)
	if which == 1 {
		p = flags.NewParser(&optsCmd, flags.None)
	}
	var rest []string
	var err error
	func() {
		defer func() {
			if r := recover(); r != nil {
				c.Fail("panic|"+explore.PanicSite(), fmt.Sprint(r))
			}
		}()
		rest, err = p.ParseArgs(argv)
	}()
	if c.Failed() {
		return
	}
	c.Hit("nil-pointer-structs")
	if err != nil {
		c.Fail("valid-vector-rejected|"+errType(err), fmt.Sprint(err))
		return
	}
	if which == 0 {
		if opts.Args == nil || opts.Args.Name != "a" || !sameStrings(opts.Args.Rest, []string{"b", "c"}) || len(rest) != 0 {
			c.Fail("positional|tokens-bound-into-a-struct-the-program-cannot-see", map[string]interface{}{"Args": fmt.Sprintf("%+v", opts.Args), "rest": rest})
		}
		return
	}
	if optsCmd.Sub == nil || optsCmd.Sub.Args.File != "f" || len(rest) != 0 {
		c.Fail("positional|tokens-bound-into-a-command-struct-the-program-cannot-see", map[string]interface{}{"Sub": fmt.Sprintf("%+v", optsCmd.Sub), "rest": rest})
	}
}

// c10TagValue: any non-empty value of the positional-args tag marks the struct; the binding is the same as with "yes".
func c10TagValue(c *explore.Ctx) {
	type args struct {
		Name string
		Num  int
		Rest []string
	}
	var ref struct {
		Verbose bool `short:"v"`
		Args    args `positional-args:"yes"`
	}
	var y struct {
		Verbose bool `short:"v"`
		Args    args `positional-args:"y"`
	}
	var one struct {
		Verbose bool `short:"v"`
		Args    args `positional-args:"1"`
	}
	var tr struct {
		Verbose bool `short:"v"`
		Args    args `positional-args:"true"`
	}
	which := c.Choose(3)
	toks := []string{"n", "-v", "3", "r"}
	n := c.Choose(5)
	var argv []string
	for i := 0; i < n; i++ {
		argv = append(argv, toks[c.Choose(len(toks))])
	}
	spelled := []string{"y", "1", "true"}[which]
	c.Describe(func() interface{} {
		return map[string]interface{}{"declaration": "Args struct{Name string; Num int; Rest []string} with positional-args:\"" + spelled + "\", compared with positional-args:\"yes\"", "argv": argv}
	})
	run := func(data interface{}, a *args) (rest []string, err error) {
		defer func() {
			if r := recover(); r != nil {
				c.Fail("panic|"+explore.PanicSite(), fmt.Sprint(r))
			}
		}()
		return flags.NewParser(data, flags.None).ParseArgs(argv)
	}
	restR, errR := run(&ref, &ref.Args)
	var restO []string
	var errO error
	var got *args
	switch which {
	case 0:
		restO, errO = run(&y, &y.Args)
		got = &y.Args
	case 1:
		restO, errO = run(&one, &one.Args)
		got = &one.Args
	default:
		restO, errO = run(&tr, &tr.Args)
		got = &tr.Args
	}
	if c.Failed() {
		return
	}
	c.Hit("tag-value-spellings")
	c.Outcome("tag-value", errType(errR), fmt.Sprint(ref.Args))
	if errType(errR) != errType(errO) || !sameStrings(restR, restO) || fmt.Sprint(ref.Args) != fmt.Sprint(*got) {
		c.Fail("positional|tag-value-"+spelled, map[string]interface{}{"with_yes": fmt.Sprint(ref.Args, restR, errR), "with_" + spelled: fmt.Sprint(*got, restO, errO)})
	}
}
