package checks

import (
	"bytes"
	"fmt"
	"os"
	"reflect"
	"strings"

	flags "github.com/jessevdk/go-flags"

	"verif/mc/decl"
	"verif/mc/explore"
	"verif/mc/ref"
)

// C05 — defaults and value-source precedence.

type c05Type struct {
	T *decl.Type
	// texts for: cli1, cli2, ini1, ini2, env1, env2, def1, def2 ; initial value
	Texts   [8]string
	Initial interface{}
}

func ip(i int) *int { return &i }

var c05Types = []c05Type{
	{decl.TString, [8]string{"c1", "c2", "i1", "i2", "e1", "e2", "d1", "d2"}, "n0"},
	{decl.TInt, [8]string{"11", "12", "21", "22", "31", "32", "41", "42"}, 50},
	{decl.TBool, [8]string{"", "", "true", "true", "true", "true", "", ""}, true},
	{decl.TPInt, [8]string{"11", "12", "21", "22", "31", "32", "41", "42"}, ip(50)},
	{decl.TStrings, [8]string{"c1", "c2", "i1", "i2", "e1", "e2", "d1", "d2"}, []string{"n0", "n1"}},
	{decl.TInts, [8]string{"11", "12", "21", "22", "31", "32", "41", "42"}, []int{50, 51}},
	{decl.TMapSI, [8]string{"ck:11", "cj:12", "ik:21", "ij:22", "ek:31", "ej:32", "dk:41", "dj:42"}, map[string]int{"nk": 50}},
	{decl.TUpper, [8]string{"c1", "c2", "i1", "i2", "e1", "e2", "d1", "d2"}, decl.Upper{S: "N0"}},
	{decl.TMapSS, [8]string{"k:c1", "k:c2", "k:i1", "k:i2", "k:e1", "k:e2", "k:d1", "k:d2"}, map[string]string{"k": "n0", "z": "n1"}},
	{decl.TCSV, [8]string{"c1,cc", "c2", "i1,ii", "i2", "e1,ee", "e2", "d1,dd", "d2"}, decl.CSV{"n0", "n1"}},
	{decl.TString, [8]string{"c1", "c2", "i1", "i2", "-e1", "--e2=x", "-d1", "d2"}, "n0"},          // values from the environment and from tags may look like options
	{decl.TString, [8]string{"c1", "c2", "i1", "i2", "e1", "e2", "", ""}, "n0"},                    // the default tag is the empty string: still a default
	{decl.TStrings, [8]string{"c1", "c2", "i1", "i2", "e1", "e2", "", "d2"}, []string{"n0", "n1"}}, // first of two default tags empty
}

var c05Histories = []string{"C", "IC", "DC", "CD", "DCD", "config-flag-before", "config-flag-after", "config-default-first", "config-default-last", "DD-C"}

type c05Decl struct {
	d      *decl.Decl
	o      *decl.Opt
	envKey string
	sect   string
}

var c05Cache = map[string]*c05Decl{}

func c05Get(ti int, initial bool, ndef int, envDelim bool, nest int, nsDelim int, cfgPos int) *c05Decl {
	key := fmt.Sprint(ti, initial, ndef, envDelim, nest, nsDelim, cfgPos)
	if cd := c05Cache[key]; cd != nil {
		return cd
	}
	if len(c05Cache) > 300 {
		c05Cache = map[string]*c05Decl{}
	}
	ty := c05Types[ti]
	o := &decl.Opt{Field: "Opt", Long: "opt", Short: "o", Type: ty.T, Env: "KEY"}
	for i := 0; i < ndef; i++ {
		o.Defaults = append(o.Defaults, ty.Texts[6+i])
	}
	if envDelim {
		o.EnvDelim = ","
	}
	if initial {
		o.Initial = ty.Initial
	}
	other := &decl.Opt{Field: "Other", Long: "other", Type: decl.TString, Defaults: []string{"od"}}
	// a second slice option without any source; when Opt is a []string with an initial value, the program initialised both from one slice
	alias := &decl.Opt{Field: "Alias", Long: "alias", Type: decl.TStrings}
	cfg := &decl.Opt{Field: "Config", Long: "config", Type: decl.TFuncS}
	top := &decl.Cmd{Name: "app"}
	sect := "Application Options"
	var ns []string
	switch nest {
	case 0:
		top.Opts = []*decl.Opt{other, alias, o}
	case 1:
		top.Opts = []*decl.Opt{other}
		top.Groups = []*decl.Group{{Field: "Outer", Name: "Outer", EnvNamespace: "OUT", Opts: []*decl.Opt{o}}}
		ns, sect = []string{"OUT"}, "Outer"
	case 2:
		top.Opts = []*decl.Opt{other}
		top.Groups = []*decl.Group{{Field: "Outer", Name: "Outer", EnvNamespace: "OUT", Groups: []*decl.Group{{Field: "Inner", Name: "Inner", EnvNamespace: "IN", Opts: []*decl.Opt{o}}}}}
		ns, sect = []string{"OUT", "IN"}, "Inner"
	case 3: // the inner group carries no env-namespace of its own: the outer one still applies
		top.Opts = []*decl.Opt{other}
		top.Groups = []*decl.Group{{Field: "Outer", Name: "Outer", EnvNamespace: "OUT", Groups: []*decl.Group{{Field: "Inner", Name: "Inner", Opts: []*decl.Opt{o}}}}}
		ns, sect = []string{"OUT"}, "Inner"
	case 4: // the outer group carries none, the inner one does
		top.Opts = []*decl.Opt{other}
		top.Groups = []*decl.Group{{Field: "Outer", Name: "Outer", Groups: []*decl.Group{{Field: "Inner", Name: "Inner", EnvNamespace: "IN", Opts: []*decl.Opt{o}}}}}
		ns, sect = []string{"IN"}, "Inner"
	case 5: // the option belongs to a subcommand, which the command line selects only when the option occurs on it
		top.Opts = []*decl.Opt{other}
		top.SubOptional = true
		top.Cmds = []*decl.Cmd{{Field: "Sub", Name: "sub", Opts: []*decl.Opt{o}}}
		sect = "sub"
	case 6: // ... or to a command three levels down (every traversal of the command tree has to reach it)
		top.Opts = []*decl.Opt{other}
		top.SubOptional = true
		top.Cmds = []*decl.Cmd{{Field: "Sub", Name: "sub", SubOptional: true, Cmds: []*decl.Cmd{{Field: "Deep", Name: "deep", SubOptional: true,
			Cmds: []*decl.Cmd{{Field: "Deeper", Name: "deeper", Opts: []*decl.Opt{o}}}}}}}
		sect = "sub.deep.deeper"
	}
	switch cfgPos {
	case 1:
		top.Opts = append([]*decl.Opt{cfg}, top.Opts...)
	case 2:
		top.Opts = append(top.Opts, cfg)
		if nest != 0 {
			// declared after the groups: put it in a trailing group so that it is scanned last
			top.Opts = top.Opts[:len(top.Opts)-1]
			top.Groups = append(top.Groups, &decl.Group{Field: "Last", Name: "Last", Opts: []*decl.Opt{cfg}})
		}
	}
	d := &decl.Decl{Top: top}
	delim := []string{"_", "", "__"}[nsDelim]
	d.Finish()
	cd := &c05Decl{d: d, o: o, sect: sect}
	cd.envKey = strings.Join(append(append([]string{}, ns...), "KEY"), delim)
	o.EnvNS = cd.envKey
	c05Cache[key] = cd
	return cd
}

func init() {
	body := func(c *explore.Ctx) {
		ti := c.Choose(len(c05Types))
		ty := c05Types[ti]
		multi := ty.T.IsMulti()
		isBool := ty.T == decl.TBool
		initial := c.Bool()
		ndef := 0
		if !isBool {
			ndef = c.Choose(3)
			if ndef == 2 && !multi {
				c.Skip()
			}
		}
		env := c.Choose(6) // 0 unset, 1 one value, 2 two values with delimiter, 3 set but empty, 4 three pieces of which the middle one is empty, 5 ... is malformed
		if env == 4 && ty.T != decl.TStrings {
			c.Skip() // an empty piece is an element only for string elements
		}

		ncli := c.Choose(3)
		nini := c.Choose(3)
		hi := c.Choose(len(c05Histories))
		hist := c05Histories[hi]
		if env == 5 && (ty.T != decl.TInts || ncli > 0 || hi != 0) {
			c.Skip() // the malformed piece goes with []int, a command line without the option and the plain history
		}
		nest := c.Deviate(7)
		nsDelim := c.Deviate(3)
		if isBool && ncli == 2 {
			c.Skip()
		}
		cfgPos := 0
		switch hist {
		case "config-flag-before", "config-flag-after", "config-default-first":
			cfgPos = 1
		case "config-default-last":
			cfgPos = 2
		}
		if nini == 0 && strings.ContainsAny(hist, "ID") && hist != "C" {
			// an INI read without an entry for the option is still a read; keep one representative
			if hist != "DC" && hist != "CD" {
				c.Skip()
			}
		}
		if strings.HasPrefix(hist, "config") && nini == 0 {
			c.Skip()
		}
		cd := c05Get(ti, initial, ndef, env == 2 || env == 4 || env == 5, nest, nsDelim, cfgPos)
		delim := []string{"_", "", "__"}[nsDelim]

		// the sources' values
		var cliV, iniV, envV, defV []string
		for i := 0; i < ncli; i++ {
			cliV = append(cliV, ty.Texts[i])
		}
		for i := 0; i < nini; i++ {
			iniV = append(iniV, ty.Texts[2+i])
		}
		envSet := env != 0
		envText := ""
		switch env {
		case 1:
			envV, envText = []string{ty.Texts[4]}, ty.Texts[4]
		case 2:
			envV, envText = []string{ty.Texts[4], ty.Texts[5]}, ty.Texts[4]+","+ty.Texts[5]
		case 3:
			envV = []string{""}
		case 4:
			envV, envText = []string{ty.Texts[4], "", ty.Texts[5]}, ty.Texts[4]+",,"+ty.Texts[5]
		case 5:
			envV, envText = []string{ty.Texts[4]}, ty.Texts[4]+",zz,"+ty.Texts[5]
		}
		for i := 0; i < ndef; i++ {
			defV = append(defV, ty.Texts[6+i])
		}
		// INI text
		var ini strings.Builder
		fmt.Fprintf(&ini, "[%s]\n", cd.sect)
		for _, v := range iniV {
			fmt.Fprintf(&ini, "Opt = %s\n", v)
		}
		iniText := ini.String()
		var argv []string
		for _, v := range cliV {
			if isBool {
				argv = append(argv, "--opt")
			} else {
				argv = append(argv, "--opt="+v)
			}
		}
		if nest == 5 && ncli > 0 {
			argv = append([]string{"sub"}, argv...)
		}
		if nest == 6 && ncli > 0 {
			argv = append([]string{"sub", "deep", "deeper"}, argv...)
		}
		if nest >= 5 {
			c.Hit("option-of-a-command")
		}
		switch hist {
		case "config-flag-before":
			argv = append([]string{"--config=f"}, argv...)
		case "config-flag-after":
			argv = append(argv, "--config=f")
		}
		c.Describe(func() interface{} {
			return map[string]interface{}{"type": ty.T.Name, "initial_value": initial, "default_tags": defV, "env": map[string]interface{}{"key": cd.envKey, "set": envSet, "value": envText, "env-delim": cd.o.EnvDelim},
				"ini": iniText, "argv": argv, "history": hist, "env_namespace_delimiter": delim}
		})

		// precedence model
		var src []string
		winner := ""
		iniRead := hist != "C"
		switch {
		case ncli > 0:
			src, winner = cliV, "cli"
		case nini > 0 && iniRead:
			src, winner = iniV, "ini"
		case envSet:
			src, winner = envV, "env"
		case ndef > 0:
			src, winner = defV, "default"
		default:
			winner = "initial"
		}
		if env == 3 && ty.T != decl.TString && ty.T != decl.TStrings && ncli == 0 {
			// an empty environment value for a non-string option: the statement does not say whether it provides a value.
			// Skipped wherever the environment is consulted: it wins, or the command line is parsed before the INI file is read.
			if winner == "env" || hist == "C" || hist == "CD" || hist == "config-default-last" {
				c.Skip()
			}
		}
		var want reflect.Value
		if winner == "initial" {
			if initial {
				want = reflect.ValueOf(ty.Initial).Convert(ty.T.RT)
			} else {
				want = ref.Empty(ty.T.RT)
			}
		} else if isBool {
			want = reflect.ValueOf(true)
		} else {
			cur := ref.Empty(ty.T.RT)
			for _, t := range src {
				nv, err := ref.Apply(cur, 10, t)
				if err != nil {
					c.Fail("harness-value-not-convertible", t)
					return
				}
				cur = nv
			}
			want = cur
		}

		// the history machine of the model: which source holds the value after every step
		{
			steps := strings.ReplaceAll(hist, "-", "")
			if strings.HasPrefix(hist, "config") {
				steps = map[string]string{"config-flag-before": "DC", "config-flag-after": "CD", "config-default-first": "CD", "config-default-last": "CD"}[hist]
			}
			cur := "untouched"
			prev := c.State(ty.T.Name, fmt.Sprint(initial), cur)
			for _, h := range steps {
				switch {
				case h == 'C' && ncli > 0:
					cur = "explicit"
				case h == 'C' && cur == "untouched":
					cur = "defaulted"
				case (h == 'I' || h == 'D') && nini > 0 && cur != "explicit":
					cur = "ini"
				}
				next := c.State(ty.T.Name, fmt.Sprint(initial), cur)
				c.Transition(prev, string(h), next)
				prev = next
			}
		}

		// run the history on the real library
		// (one more deviation: built through the API, the option's group added only after a first parse on the parser)
		// (another one: the parser itself carries an env-namespace, which prefixes the keys of every group below it)
		parserNS := nest >= 1 && nest <= 4 && c.Deviate(2) == 1
		lateGroup := nest >= 1 && nest <= 4 && !parserNS && c.Deviate(2) == 1
		b := cd.d.BuildTags()
		if parserNS {
			// groups added with AddGroup hang below the parser's own group, whose env-namespace is the parser's
			// (groups nested in the struct given to NewParser do not: that group is attached to the parser directly)
			b = cd.d.BuildAPI()
		}
		if lateGroup {
			b = cd.d.BuildAPIWith(func(hb *decl.Built) {
				hb.Parser.ParseArgs(nil)
				rezero(hb)
			})
			c.Hit("group-added-after-a-first-parse")
		}
		if b.Err != nil {
			c.Fail("setup-error", b.Err.Error())
			return
		}
		p := b.Parser
		var aliasOpt *decl.Opt
		if ty.T == decl.TStrings && initial && nest == 0 {
			// both options start from the same backing array, with spare capacity (shared := base[:2] of a longer slice)
			base := []string{"n0", "n1", "spare", "spare2"}
			for _, oo := range cd.d.Top.Opts {
				if oo.Field == "Alias" {
					aliasOpt = oo
					b.Vals[oo].Set(reflect.ValueOf(base[:2]))
				}
			}
			b.Vals[cd.o].Set(reflect.ValueOf(base[:2]))
			c.Hit("aliased-initial-slices")
		}
		sameIniParser := c.Deviate(2) == 1 // one IniParser object is used for every read of the history
		var sharedIni *flags.IniParser
		if sameIniParser {
			sharedIni = flags.NewIniParser(p)
			c.Hit("reused-ini-parser")
		}
		p.EnvNamespaceDelimiter = delim
		envKey := cd.envKey
		if parserNS {
			p.EnvNamespace = "APP"
			envKey = "APP" + delim + envKey
			c.Hit("parser-env-namespace")
		}
		if envSet {
			os.Setenv(envKey, envText)
			defer os.Unsetenv(envKey)
		}
		readIni := func(asDefaults bool) error {
			ip := flags.NewIniParser(p)
			if sharedIni != nil {
				ip = sharedIni
			}
			ip.ParseAsDefaults = asDefaults
			return ip.Parse(bytes.NewReader([]byte(iniText)))
		}
		var herr error
		step := func(what string, err error) {
			if err != nil && herr == nil {
				herr = fmt.Errorf("%s: %v", what, err)
			}
		}
		func() {
			defer func() {
				if r := recover(); r != nil {
					herr = fmt.Errorf("panic: %v", r)
					c.Fail("panic|"+explore.PanicSite(), fmt.Sprint(r))
				}
			}()
			if strings.HasPrefix(hist, "config") {
				cfg := p.FindOptionByLongName("config")
				b.Vals[cd.d.Top.AllOpts()[optIndex(cd.d.Top.AllOpts(), "Config")]].Set(reflect.ValueOf(func(string) { step("ini(as defaults, from callback)", readIni(true)) }))
				if strings.HasPrefix(hist, "config-default") {
					cfg.Default = []string{"f"}
				}
				_, err := p.ParseArgs(argv)
				step("cli", err)
				return
			}
			for _, h := range strings.ReplaceAll(hist, "-", "") {
				switch h {
				case 'C':
					_, err := p.ParseArgs(argv)
					step("cli", err)
				case 'I':
					step("ini", readIni(false))
				case 'D':
					step("ini(as defaults)", readIni(true))
				}
			}
		}()
		if c.Failed() {
			return
		}
		got := b.Vals[cd.o]
		c.Outcome(ty.T.Name, winner, hist, ref.Show(got), fmt.Sprint(herr != nil))
		if env == 5 {
			c.Hit("malformed-environment-piece")
			if herr == nil {
				c.Fail("malformed-environment-piece-accepted", map[string]interface{}{"variable": envText, "stored": ref.Show(got)})
			}
			return
		}
		if herr != nil {
			c.Fail("history-step-fails|"+winner+"|"+hist, herr.Error())
			return
		}
		c.Hit("winner:" + winner)
		c.Hit("history:" + hist)
		if !ref.SameValue(want, got) {
			nn := "one"
			if len(src) > 1 {
				nn = "several"
			}
			kind := "scalar"
			if multi {
				kind = "multi"
			}
			c.Fail(fmt.Sprintf("wrong-source|winner=%s(%s)|%s|history=%s", winner, nn, kind, hist), map[string]interface{}{"want": ref.Show(want), "got": ref.Show(got)})
		}
		if aliasOpt != nil {
			if got := b.Vals[aliasOpt]; !ref.SameValue(reflect.ValueOf([]string{"n0", "n1"}), got) {
				c.Fail("option-without-source-changed-through-shared-initial-slice|"+hist, ref.Show(got))
			}
		}
		// the bystander keeps its default
		for _, o := range cd.d.Top.AllOpts() {
			if o.Field == "Other" && b.Vals[o].String() != "od" {
				c.Fail("bystander-default-lost", b.Vals[o].String())
			}
		}
	}
	explore.Register(&explore.Check{
		ID:         "C05",
		Level:      "model_checking",
		ShardDepth: 3,
		Body:       body,
		DevBound:   func(bool) int { return 2 },
		Rule: "13 option types (a string whose environment and default values look like options, a string whose default tag is empty, a []string whose first default tag is empty, string, int, bool, *int, []string, []int, map[string]int, Unmarshaler, map[string]string with one key in every source, a slice-kinded Unmarshaler that appends) x initial value present/absent x 0..2 default tags x environment {unset, one value, two values with env-delim, set-but-empty, three pieces with an empty middle one (for []string), three pieces with a malformed middle one (for []int: the parse must fail)} " +
			"x 0..2 INI entries x 0..2 command-line occurrences x 10 histories (CLI only; INI then CLI; as-defaults INI then CLI; CLI then as-defaults INI; as-defaults, CLI, as-defaults; as-defaults read from a callback option given before / after the occurrences; " +
			"from a callback option's default declared first / last; two as-defaults reads then CLI) x env-namespace nesting {none, outer, outer+inner, outer only around a plain inner group, inner only inside a plain outer group, option declared on a subcommand, or on a command three levels down, that the command line selects only when the option occurs} x EnvNamespaceDelimiter {_, empty, __} (nesting/delimiter deviation-bounded); one more deviation uses a single IniParser object for all reads of a history; another sets an env-namespace on the parser itself; another builds the parser through the API and adds the option's group only after a first ParseArgs; a second []string option initialised from the same backing array must keep its value; " +
			"the history machine per option is {untouched, defaulted, ini, explicit}; oracle = precedence function CLI > INI > env > default tags > initial, multi-valued options holding exactly the winner's values",
		Assumptions:  []string{"plain-mode INI read after a command-line parse is not ranked by the statement and is not exercised", "an empty environment value for a non-string option is skipped"},
		RequiredHits: []string{"winner:cli", "winner:ini", "winner:env", "winner:default", "winner:initial", "history:CD", "history:DCD", "history:config-flag-after", "history:config-default-last", "option-of-a-command", "group-added-after-a-first-parse"},
		Bound:        [2]string{"complete product, <= 2 namespace deviations", "complete product, <= 2 namespace deviations"},
		BudgetS:      [2]int{170, 600},
	})
}

func optIndex(opts []*decl.Opt, field string) int {
	for i, o := range opts {
		if o.Field == field {
			return i
		}
	}
	return -1
}
