package checks

import (
	"fmt"
	"strings"

	flags "github.com/jessevdk/go-flags"

	"verif/mc/decl"
	"verif/mc/explore"
	"verif/mc/ref"
)

// C01 — option fields hold exactly what the command line denotes.

type c01Kind struct {
	T        *decl.Type
	Vals     []string
	Optional bool
	Default  []string
	Base     string
	Initial  interface{}
}

var c01Kinds = []c01Kind{
	{T: decl.TBool},
	{T: decl.TBools},
	{T: decl.TString, Vals: []string{"a=b", `"q\tz"`}},
	{T: decl.TInt, Vals: []string{"5", "-7", "010"}},
	{T: decl.TUint8, Vals: []string{"200", "007"}},
	{T: decl.TFloat64, Vals: []string{"2.5", "-1e3"}},
	{T: decl.TDuration, Vals: []string{"1h2m", "-3s"}},
	{T: decl.TPString, Vals: []string{"val", "x=y"}},
	{T: decl.TPInt, Vals: []string{"5", "-7"}},
	{T: decl.TStrings, Vals: []string{"a", "b=c"}},
	{T: decl.TInts, Vals: []string{"1", "-2", "0644"}},
	{T: decl.TMapSS, Vals: []string{"k:v", "k:w:z", "j:1"}},
	{T: decl.TMapSI, Vals: []string{"k:1", "k:2", "j:-3"}},
	{T: decl.TFunc0},
	{T: decl.TFuncS, Vals: []string{"val", "a=b"}},
	{T: decl.TFuncVar, Vals: []string{"val", "a=b"}}, // a variadic callback is handed the one argument of each occurrence
	{T: decl.TFuncIE, Vals: []string{"5", "-7"}},
	{T: decl.TUpper, Vals: []string{"val", "a=b"}},
	{T: decl.TString, Vals: []string{"val"}, Optional: true},
	{T: decl.TInt, Vals: []string{"5"}, Optional: true},
	{T: decl.TPUpper, Vals: []string{"val", "x"}},
	{T: decl.TUppers, Vals: []string{"a", "b"}},
	{T: decl.TOnOff, Vals: []string{"on", "off"}},
	{T: decl.TFloat32, Vals: []string{"0.1", "1.00000005960464478", "16777217.000000001"}},
	{T: decl.TPInts, Vals: []string{"3", "-4"}},
	{T: decl.TCSV, Vals: []string{"a,b", "c"}},
	{T: decl.TSink, Vals: []string{"val", "x"}},                        // an Unmarshaler with a value receiver
	{T: decl.TOnOffs, Vals: []string{"on", "off"}},                     // a slice of a bool-kinded Unmarshaler: every element takes an argument
	{T: decl.TInt, Base: "0", Vals: []string{"0644", "0x1F", "12"}},    // base inferred from the prefix
	{T: decl.TMapIS, Base: "16", Vals: []string{"10:a", "1f:b", "10:c"}}, // the base tag governs integer map keys too (C01-33)
	{T: decl.TFuncS, Vals: []string{"val"}, Default: []string{"dflt"}}, // a callback with a default: called with it only when the option does not occur
	// fields that hold something before the parse: an occurrence replaces the previous contents, no occurrence leaves them
	{T: decl.TMapSI, Vals: []string{"k:1", "j:-3"}, Initial: map[string]int{"stale": 99, "k": 7}},
	{T: decl.TStrings, Vals: []string{"a"}, Initial: []string{"old", "older"}},
}

const (
	c01PlParser = iota
	c01PlSub
	c01PlNs
	c01PlNsNs
	c01PlCmd
	c01PlCmdNs
	c01PlDeep
	c01PlCmdShadow
	c01PlDeepShadow
	c01PlNsShadow  // the same namespaced long name on the parser and on the command (innermost wins)
	c01PlPlainInNs // a group without namespace nested in a namespaced group
	c01Placements
)

type c01Decl struct {
	d     *decl.Decl
	u     *decl.Opt
	units [][]string
	key   string
}

// c01Build constructs the declaration and the unit alphabet for one cell.
func c01Build(kind c01Kind, placement int, delim string, short string, hf bool) *c01Decl {
	u := &decl.Opt{Field: "U", Short: short, Long: "name", Type: kind.T}
	if kind.Optional {
		u.Optional = "yes"
		u.OptionalVal = []string{"77"}
	}
	u.Defaults = kind.Default
	u.Base = kind.Base
	u.Initial = kind.Initial
	verbose := &decl.Opt{Field: "Verbose", Short: "v", Long: "verbose", Type: decl.TBools}
	str := &decl.Opt{Field: "Str", Short: "s", Long: "str", Type: decl.TString}
	top := &decl.Cmd{Name: "app", SubOptional: true, Opts: []*decl.Opt{verbose}}
	deep := &decl.Cmd{Field: "Deep", Name: "deep"}
	add := &decl.Cmd{Field: "Add", Name: "add", Aliases: []string{"a2"}, SubOptional: true, Cmds: []*decl.Cmd{deep}}
	top.Cmds = []*decl.Cmd{add}
	longNS := "name"
	shadow := func() *decl.Opt {
		return &decl.Opt{Field: "Shadow", Short: short, Long: "name", Type: kind.T, Optional: u.Optional, OptionalVal: u.OptionalVal, Base: kind.Base}
	}
	switch placement {
	case c01PlParser:
		top.Opts = append(top.Opts, str, u)
	case c01PlSub:
		top.Groups = []*decl.Group{{Field: "Sub", Name: "Sub Group", Opts: []*decl.Opt{str, u}}}
	case c01PlNs:
		top.Groups = []*decl.Group{{Field: "Sub", Name: "Sub Group", Namespace: "ns", Opts: []*decl.Opt{u}}}
		top.Opts = append(top.Opts, str)
		longNS = "ns" + delim + "name"
	case c01PlNsNs:
		top.Groups = []*decl.Group{{Field: "Outer", Name: "Outer Group", Namespace: "outer",
			Groups: []*decl.Group{{Field: "Inner", Name: "Inner Group", Namespace: "inner", Opts: []*decl.Opt{str, u}}}}}
		longNS = "outer" + delim + "inner" + delim + "name"
		str.Long = "str"
	case c01PlCmd:
		add.Opts = []*decl.Opt{str, u}
	case c01PlCmdNs:
		add.Groups = []*decl.Group{{Field: "CG", Name: "Cmd Group", Namespace: "cns", Opts: []*decl.Opt{u}}}
		add.Opts = []*decl.Opt{str}
		longNS = "cns" + delim + "name"
	case c01PlDeep:
		deep.Opts = []*decl.Opt{str, u}
	case c01PlCmdShadow:
		top.Opts = append(top.Opts, shadow())
		add.Opts = []*decl.Opt{str, u}
	case c01PlDeepShadow:
		add.Opts = []*decl.Opt{shadow()}
		deep.Opts = []*decl.Opt{str, u}
	case c01PlNsShadow:
		top.Groups = []*decl.Group{{Field: "TG", Name: "Top Group", Namespace: "db", Opts: []*decl.Opt{shadow()}}}
		add.Groups = []*decl.Group{{Field: "AG", Name: "Add Group", Namespace: "db", Opts: []*decl.Opt{u}}}
		add.Opts = []*decl.Opt{str}
		longNS = "db" + delim + "name"
	case c01PlPlainInNs:
		top.Groups = []*decl.Group{{Field: "Outer", Name: "Outer Group", Namespace: "outer",
			Groups: []*decl.Group{{Field: "Inner", Name: "Inner Group", Opts: []*decl.Opt{str, u}}}}}
		longNS = "outer" + delim + "name"
	}
	d := &decl.Decl{Top: top, Sentinels: true}
	if delim != "." {
		d.NsDelim = delim
	}
	if hf {
		d.Options = flags.HelpFlag | flags.PassDoubleDash
	}
	d.Finish()
	strLong := str.LongNS
	// unit alphabet
	var units [][]string
	S, L := "-"+short, "--"+longNS
	if kind.T.IsFlag() {
		units = append(units, []string{S}, []string{L}, []string{"-v" + short}, []string{S + short})
	} else {
		for i, v := range kind.Vals {
			if i == 0 {
				units = append(units, []string{S + v}, []string{S + "=" + v}, []string{S, v}, []string{L + "=" + v}, []string{L, v}, []string{"-v" + short, v})
			} else if i%2 == 1 {
				units = append(units, []string{S + v}, []string{L, v})
			} else {
				units = append(units, []string{S, v}, []string{L + "=" + v})
			}
		}
		if kind.Optional {
			units = append(units, []string{S}, []string{L})
		}
		// the empty value, attached (it denotes the empty string, or is a conversion fault; never "no argument")
		if len(kind.Vals)%2 == 0 {
			units = append(units, []string{L + "="})
		} else {
			units = append(units, []string{S + "="})
		}
	}
	units = append(units, []string{"-v"}, []string{"--" + strLong + "=x"}, []string{"-s", "y"}, []string{"add"}, []string{"deep"}, []string{"w"})
	return &c01Decl{d: d, u: u, units: units}
}

var c01Cache = map[string]*c01Decl{}

func init() {
	type cell struct {
		kind      int
		placement int
		delim     string
	}
	var cells []cell
	for k := range c01Kinds {
		for p := 0; p < c01Placements; p++ {
			cells = append(cells, cell{k, p, "."})
			if p == c01PlNs || p == c01PlNsNs || p == c01PlCmdNs || p == c01PlNsShadow || p == c01PlPlainInNs {
				cells = append(cells, cell{k, p, "::"})
			}
		}
	}
	body := func(c *explore.Ctx) {
		ce := cells[c.Choose(len(cells))]
		short := []string{"u", "é"}[c.Choose(2)]
		api := c.Bool()
		hf := c.Bool()
		if hf && ce.placement != c01PlParser && ce.placement != c01PlCmd && ce.placement != c01PlNs {
			c.Skip() // HelpFlag|PassDoubleDash go with three of the placements
		}
		kind := c01Kinds[ce.kind]
		// for API builds whose option under test sits in a group of the parser: also with that group added late, after the
		// commands exist and after parses on the half-built parser have selected each of them
		late := false
		switch ce.placement {
		case c01PlSub, c01PlNs, c01PlNsNs, c01PlNsShadow, c01PlPlainInNs:
			late = api && !hf && short == "u" && c.Bool()
		}
		// the same parser has been used before (struct-tag builds with the ASCII short name): 1 = a parse that gave U two
		// occurrences and was then rejected for an undefined option, 2 = the same without the undefined option (accepted)
		hist := 0
		if !api && !hf && short == "u" && ce.delim == "." {
			hist = c.Choose(3)
		}
		ck := fmt.Sprintf("%d/%d/%s/%s/%v", ce.kind, ce.placement, ce.delim, short, hf)
		cd := c01Cache[ck]
		if cd == nil {
			if len(c01Cache) > 64 {
				c01Cache = map[string]*c01Decl{}
			}
			cd = c01Build(kind, ce.placement, ce.delim, short, hf)
			c01Cache[ck] = cd
		}
		maxDepth := 3
		if c.Thorough {
			maxDepth = 4
		}
		n := c.Choose(maxDepth + 2)
		var argv, unitNames []string
		if n == maxDepth+1 {
			// beyond the depth bound, a thin probe: one unit repeated many times (thresholds such as "the 9th occurrence")
			u := cd.units[c.Choose(len(cd.units))]
			reps := []int{5, 8, 9, 10, 16, 17, 33}[c.Choose(7)]
			for i := 0; i < reps; i++ {
				argv = append(argv, u...)
				unitNames = append(unitNames, strings.Join(u, " "))
			}
			c.Hit("long-run")
		} else {
			for i := 0; i < n; i++ {
				u := cd.units[c.Choose(len(cd.units))]
				argv = append(argv, u...)
				unitNames = append(unitNames, strings.Join(u, " "))
			}
		}
		key := fmt.Sprintf("%s%s%v/%v/p%d/%s/%s/api=%v/hf=%v/late=%v/hist=%d", kind.T.Name, kind.Base, kind.Initial != nil, kind.Optional, ce.placement, ce.delim, short, api, hf, late, hist)
		c.Describe(func() interface{} {
			return map[string]interface{}{"option_type": kind.T.Name, "optional": kind.Optional, "placement": ce.placement, "delimiter": ce.delim,
				"short": short, "api_path": api, "group_added_after_commands_and_two_parses": late, "help_flag+pass_double_dash": hf, "argv": argv, "tag_of_U": cd.u.Tag(),
				"earlier_parse_on_same_parser(0=none,1=rejected,2=accepted)": hist}
		})
		cfg := &ref.Config{D: cd.d}
		var b *decl.Built
		if hist != 0 {
			c.Hit("earlier-parse")
			b = cd.d.BuildTags()
			if b.Err != nil {
				c.Fail("setup-error", b.Err.Error())
				return
			}
			var w []string
			switch ce.placement {
			case c01PlCmd, c01PlCmdNs, c01PlCmdShadow, c01PlNsShadow:
				w = []string{"add"}
			case c01PlDeep, c01PlDeepShadow:
				w = []string{"add", "deep"}
			}
			w = append(append(w, cd.units[0]...), cd.units[0]...)
			if hist == 1 {
				w = append(w, "--undefined-zz")
			}
			wr, held := earlierParse(b, cfg, w, cd.u)
			if wr.Panic != nil {
				c.Fail("panic|"+wr.PanicSite, fmt.Sprint("earlier parse ", w, ": ", wr.Panic))
				return
			}
			if (hist == 1) != (errType(wr.Err) == "unknown flag") || (hist == 2 && wr.Err != nil) {
				c.Fail("earlier-parse-outcome|"+kind.T.Name+"|"+errType(wr.Err), fmt.Sprint(w, ": ", wr.Err))
				return
			}
			cfg.Held = held
		}
		res := ref.Run(cfg, argv)
		if msg := res.CheckInvariants(argv); msg != "" {
			c.Fail("model-invariant", msg)
			return
		}
		recordStates(c, key, res, unitNames)
		if hist != 0 {
			// built above
		} else if late {
			c.Hit("late-built")
			b = cd.d.BuildAPIWith(func(hb *decl.Built) {
				hb.Parser.ParseArgs([]string{"add"})
				hb.Parser.ParseArgs([]string{"add", "deep"})
				for _, fc := range hb.Cmds {
					fc.Active = nil
				}
				rezero(hb)
			})
		} else if api {
			b = cd.d.BuildAPI()
		} else {
			b = cd.d.BuildTags()
		}
		if b.Err != nil {
			c.Fail("setup-error", b.Err.Error())
			return
		}
		if hist != 0 && len(res.Occs[cd.u]) > 0 {
			c.Hit("occurrence-after-earlier-parse")
		}
		// a slice the program stored in the field is the program's: another variable of the program may refer to the same elements
		// (here: a second slice header over the same array, taken before the parse). Replacing the option's value must not write into them
		var alias []string
		if pre, ok := b.Vals[cd.u].Interface().([]string); ok && len(pre) > 0 {
			alias = pre
		}
		rr := runParser(b, cfg, argv, runOpts{})
		if rr.Panic != nil {
			c.Fail("panic|"+rr.PanicSite, fmt.Sprint(rr.Panic))
			return
		}
		if alias != nil && hist == 0 {
			c.Hit("preset-slice-aliased")
			if want := kind.Initial.([]string); !sameStrings(alias, want) {
				c.Fail("elements-of-the-program's-own-slice-overwritten", map[string]interface{}{"stored_before_the_parse": want, "the_program's_other_reference_now_reads": alias, "field": ref.Show(b.Vals[cd.u])})
				return
			}
		}
		c.Outcome(key, errType(rr.Err), fmt.Sprint(len(res.Occs[cd.u])), ref.Show(b.Vals[cd.u]))
		if res.Fault != nil || res.Grey {
			c.Hit("model-fault")
			return
		}
		if rr.Err != nil {
			// every vector of this alphabet that the model accepts consists of documented spellings of declared options:
			// a rejection means an occurrence's denoted value did not reach its field
			c.Fail("denoted-occurrence-rejected|"+kind.T.Name+"|"+errType(rr.Err), fmt.Sprint(rr.Err))
			return
		}
		c.Hit("compared")
		if len(res.Occs[cd.u]) > 1 {
			c.Hit("repeated-occurrence")
		}
		compareOptionValues(c, b, cfg, res, "")
	}
	explore.Register(&explore.Check{
		ID:         "C01",
		Level:      "model_checking",
		ShardDepth: 2,
		Body:       body,
		Rule: "option under test U of 32 kinds (a variadic callback func(...string), a map[string]int and a []string whose fields hold entries before the parse, a slice of a bool-kinded Unmarshaler, an int with base 0, an Unmarshaler with a value receiver, a func(string) with a default tag, bool, []bool, string, int, uint8, float64, float32, Duration, *string, *int, []string, []int, []*int, map[string]string, map[string]int, " +
			"func(), func(string), func(int) error, Unmarshaler, *Unmarshaler, []Unmarshaler, a bool-kinded Unmarshaler, a slice-kinded Unmarshaler, optional-argument string/int) x 11 placements (parser, subgroup, namespaced, doubly namespaced, command, " +
			"command's namespaced group, sub-subcommand, shadowing an ancestor's option at two depths, shadowing through an identical namespaced long name, plain group nested in a namespaced group) x namespace delimiter {., ::} x short name {u, é} x {struct tags, AddGroup/AddCommand API, API with the parser's groups added after the commands and after two parses that selected them} " +
			"x {None, HelpFlag|PassDoubleDash (on three of the placements)} x {fresh parser; on tag-built declarations also: the same parser has already parsed a line that gave U two occurrences and was rejected for an undefined option / the same line without the undefined option, accepted - U then holds what that line left unless it occurs again, in which case it holds only what the new line denotes}; every sequence of <= 3 (quick) / <= 4 (thorough) units over all spellings of U with 1-3 values and with the empty attached value (--name= or -u=), bystander options, command words and a plain word, plus beyond that bound every unit repeated 5, 8, 9, 10, 16, 17 and 33 times; " +
			"oracle = command-line reference model (CLM) + conversion model; compared on every successful parse; states = distinct (declaration, CLM state), distinct = distinct (declaration, error class, #occurrences, value of U)",
		Assumptions:  []string{"multi-valued optional-argument options are kept out (bare occurrence semantics undocumented)", "flags of a cluster that precede an unknown character are not asserted"},
		RequiredHits: []string{"compared", "repeated-occurrence", "model-fault", "late-built", "earlier-parse", "occurrence-after-earlier-parse", "preset-slice-aliased"},
		Bound:        [2]string{"all unit sequences of length <= 3", "all unit sequences of length <= 4"},
		BudgetS:      [2]int{170, 1500},
	})
}
