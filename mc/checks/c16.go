package checks

import (
	"bytes"
	"fmt"
	"regexp"
	"strings"

	flags "github.com/jessevdk/go-flags"

	"verif/mc/decl"
	"verif/mc/explore"
	"verif/mc/ref"
)

// C16 — help and man page show exactly the visible interface.
//
// Every string of the option under test U is a unique marker, so presence and
// absence can be decided on the produced text whatever its layout.

const (
	c16PlParser = iota
	c16PlSubgroup
	c16PlHiddenSubgroup
	c16PlCommand
	c16PlCommandGroup
	c16PlHiddenCommand
	c16PlDeep
	c16PlSibling
	c16PlNestedOuterEnv // subgroup inside a subgroup: only the outer one carries an env-namespace
	c16PlNestedBothEnv  // both carry one
	c16NPlacements
)

type c16Vec struct {
	names    int // 0 short only, 1 long only, 2 both
	desc     bool
	def      int // 0 none, 1 default tag, 2 default + mask, 3 default + mask "-", 4 the default itself is "-" (no mask)
	env      bool
	choices  bool
	valname  bool
	hidden   bool
	required bool
	onoff    bool // U's type is a bool-kinded Unmarshaler (takes an argument, so value name and choices are shown)
}

type c16Decl struct {
	d *decl.Decl
	u *decl.Opt
}

func c16Build(v c16Vec, placement int) *c16Decl {
	u := &decl.Opt{Field: "U", Type: decl.TString}
	if v.onoff {
		u.Type = decl.TOnOff
	}
	if v.names != 1 {
		u.Short = "u"
	}
	if v.names != 0 {
		u.Long = "ulongx"
	}
	if v.desc {
		u.Desc = "UDESCX 100%d of %s"
	}
	switch v.def {
	case 1:
		u.Defaults = []string{"UDFLTX%H"}
	case 2:
		u.Defaults, u.DefaultMask = []string{"UDFLTX%H"}, "UMASKX<0-100%>"
	case 3:
		u.Defaults, u.DefaultMask = []string{"UDFLTX%H"}, "-"
	case 4:
		u.Defaults = []string{"-"}
	}
	if v.env {
		u.Env = "UENVX"
	}
	if v.choices {
		u.Choices = []string{"UDFLTX%H", "UCHBX"}
		if v.def == 0 {
			u.Choices = []string{"UCHAX", "UCHBX"}
			if v.env {
				u.Choices = []string{"UCHBX"} // a single choice is a list of choices too
			}
		}
	}
	if v.valname {
		u.ValueName = "UVALX"
	}
	if v.hidden {
		u.Hidden = []string{"yes", "False", "NO"}[(v.names+v.def)%3] // any non-falsy spelling hides (only "", false, no, 0 do not)
	}
	if v.required {
		u.Required = "yes"
	}
	by := func(field, short, long, desc string) *decl.Opt {
		return &decl.Opt{Field: field, Short: short, Long: long, Desc: desc, Type: decl.TString}
	}
	top := &decl.Cmd{Name: "app", SubOptional: true, Desc: "", Opts: []*decl.Opt{by("Top", "t", "toplong", "TOPDESC"),
		{Field: "Cb", Long: "cbopt", Desc: "CBODESC", Type: decl.TFuncS}, // a callback option: it has no default to show
		by("One", "", "y", "ONECHARDESC "+c16LongWord), by("Tiny", "", "tinyopt", "T")}}
	top.Opts[2].ValueName = "V" // ... and a value name of a single character; Tiny's whole description is one character // a long name of a single character; its description has a word longer than any description column
	sub := &decl.Group{Field: "SubG", Name: "SUBGNAME", Namespace: "sgns", EnvNamespace: "SGENV", Opts: []*decl.Opt{by("SubO", "", "subopt", "SUBODESC")}}
	hid := &decl.Group{Field: "HidG", Name: "HIDGNAME", Hidden: true, Opts: []*decl.Opt{by("HidO", "", "hidgopt", "HIDGODESC")}}
	top.Groups = []*decl.Group{sub, hid}
	top.Pos = []*decl.PosArg{{Field: "PA", Name: "PARGA", Type: decl.TString, Desc: "PARGADESC"}, {Field: "PB", Name: "PARGB", Type: decl.TString, Desc: "D"}}
	deep := &decl.Cmd{Field: "Deep", Name: "deep", Desc: "DEEPDESC", Opts: []*decl.Opt{by("DeepO", "", "deepopt", "DEEPODESC")}}
	cg := &decl.Group{Field: "CG", Name: "CGNAME", Opts: []*decl.Opt{by("CgO", "", "cgopt", "CGODESC")}}
	add := &decl.Cmd{Field: "Add", Name: "add", Desc: "ADDDESC", LongDesc: "ADDLONGDESC", Aliases: []string{"ADDALX"}, SubOptional: true, Cmds: []*decl.Cmd{deep},
		Opts: []*decl.Opt{by("AddO", "", "addopt", "ADDODESC")}, Groups: []*decl.Group{cg},
		Pos: []*decl.PosArg{{Field: "CA", Name: "CARGA", Type: decl.TString, Desc: "CARGADESC"}}}
	rm := &decl.Cmd{Field: "Rm", Name: "rm", Desc: "RMDESC", Aliases: []string{"RMALX"}, Opts: []*decl.Opt{by("RmO", "", "rmopt", "RMODESC")}}
	hc := &decl.Cmd{Field: "Hc", Name: "hidcmd", Desc: "HIDCDESC", Hidden: true, Opts: []*decl.Opt{by("HcO", "", "hcopt", "HCODESC")}}
	// a command that has no option of its own, only a subcommand with one
	leaf := &decl.Cmd{Field: "Leaf", Name: "leafcmd", Desc: "LEAFCDESC", Opts: []*decl.Opt{by("LeafO", "", "leafopt", "LEAFODESC")}}
	bare := &decl.Cmd{Field: "Bare", Name: "barecmd", Desc: "BARECDESC", Cmds: []*decl.Cmd{leaf}}
	// a described command whose name is longer in bytes than in characters, and the longest of all in bytes
	uml := &decl.Cmd{Field: "Uml", Name: "größe-ändern", Desc: "UMLCDESC"}
	// a command whose only option sits in a group of its own
	gonly := &decl.Cmd{Field: "Gonly", Name: "grouponly", Desc: "GONLYCDESC", Groups: []*decl.Group{{Field: "GoG", Name: "GOGNAME", Opts: []*decl.Opt{by("GoO", "", "goopt", "GOODESC")}}}}
	// a command whose description is a single character (it has an alias, shown beside the description)
	tiny := &decl.Cmd{Field: "TinyC", Name: "tinycmd", Desc: "Z", Aliases: []string{"TINYALX"}}
	top.Cmds = []*decl.Cmd{add, rm, hc, bare, uml, gonly, tiny}
	top.Opts[0].Initial = "I" // the field holds a one-character string before the parse: that is its default
	switch placement {
	case c16PlParser:
		top.Opts = append(top.Opts, u)
	case c16PlSubgroup:
		sub.Opts = append(sub.Opts, u)
	case c16PlHiddenSubgroup:
		hid.Opts = append(hid.Opts, u)
	case c16PlCommand:
		add.Opts = append(add.Opts, u)
	case c16PlCommandGroup:
		cg.Opts = append(cg.Opts, u)
	case c16PlHiddenCommand:
		hc.Opts = append(hc.Opts, u)
	case c16PlDeep:
		deep.Opts = append(deep.Opts, u)
	case c16PlSibling:
		rm.Opts = append(rm.Opts, u)
	case c16PlNestedOuterEnv:
		sub.Groups = []*decl.Group{{Field: "In1", Name: "INNERG", Namespace: "inns", Opts: []*decl.Opt{u}}}
	case c16PlNestedBothEnv:
		sub.Groups = []*decl.Group{{Field: "In2", Name: "INNERG", Namespace: "inns", EnvNamespace: "INENV", Opts: []*decl.Opt{u}}}
	}
	d := (&decl.Decl{Top: top, Options: flags.HelpFlag}).Finish()
	return &c16Decl{d: d, u: u}
}

var c16LongWord = strings.Repeat("w", 150) + "ENDW"
var c16TinyHelpRe = regexp.MustCompile(`--tinyopt=\s+T(\s|$)`)
var c16TinyManRe = regexp.MustCompile(`(?m)^T$`)
var c16PargbRe = regexp.MustCompile(`PARGB:\s+D(\s|$)`)
var c16TinyCmdRe = regexp.MustCompile(`tinycmd\s+Z(\s|$)`)
var c16InitialRe = regexp.MustCompile(`TOPDESC\s+\(default:\s+I\)`)
var c16HyphenBreak = regexp.MustCompile("-\n\\s*")

var c16Chains = [][]string{{}, {"add", "ca"}, {"add", "ca", "deep"}, {"rm"}, {"hidcmd"}}

var c16ShortRe = regexp.MustCompile(`(^|[\s,/\[(])-u($|[\s,=/\])])`)
var c16ManShortRe = regexp.MustCompile(`\\-u\\fR`)

func init() {
	body := func(c *explore.Ctx) {
		v := c16Vec{names: c.Choose(3), desc: c.Bool(), def: c.Choose(5), env: c.Bool(), choices: c.Bool(), valname: c.Bool(), hidden: c.Bool(), required: c.Bool()}
		v.onoff = v.def == 0 && c.Bool()
		placement := c.Choose(c16NPlacements)
		ci := c.Choose(len(c16Chains))
		gen := c.Choose(3)                                              // 0 WriteHelp after a parse selecting the chain, 1 the ErrHelp text, 2 man page
		late := c.Choose(2) == 1                                        // rm is hidden and hidcmd un-hidden through their public Hidden fields after a first rendering (and a field's value changed)
		given := gen == 1 && !v.onoff && !v.choices && c.Choose(2) == 1 // the help request follows an occurrence of U with a value
		if gen == 2 && ci != 0 {
			c.Skip() // the man page covers the whole tree whatever is active
		}
		cd := c16Build(v, placement)
		u := cd.u
		chain := c16Chains[ci]
		argv := append([]string{"pa", "pb"}, chain...)
		if v.required && gen != 1 {
			// supply U where it is in scope so that the selecting parse succeeds (WriteHelp does not need success, but keep it clean)
		}
		c.Describe(func() interface{} {
			return map[string]interface{}{"tag_of_U": u.Tag(), "placement": placement, "active_chain": chain, "generator": []string{"WriteHelp", "ErrHelp", "WriteManPage"}[gen]}
		})
		b := cd.d.BuildTags()
		if b.Err != nil {
			c.Fail("setup-error", b.Err.Error())
			return
		}
		if late {
			if ci != 0 || placement != c16PlParser {
				c.Skip()
			}
			// during that first use the option whose default is its initial value holds another value ("J"); the program then
			// stores "I": the default shown afterwards is what the field holds when the parse that precedes the help starts
			first := b.Vals[cd.d.Top.Opts[0]]
			first.SetString("J")
			func() {
				defer func() { recover() }()
				var sink bytes.Buffer
				b.Parser.ParseArgs([]string{"pa", "pb", "nosuchcommand"})
				b.Parser.WriteHelp(&sink)
				b.Parser.WriteManPage(&sink)
			}()
			first.SetString("I")
			// one level down, where no command is hidden by a tag: barecmd's only subcommand is hidden through its public field
			if leaf := b.Parser.Find("barecmd").Find("leafcmd"); leaf != nil {
				leaf.Hidden = true
				var hb bytes.Buffer
				func() {
					defer func() { recover() }()
					b.Parser.ParseArgs([]string{"pa", "pb", "barecmd"}) // (fails: a subcommand is required; the chain is selected all the same)
					b.Parser.WriteHelp(&hb)
				}()
				b.Parser.Active = nil
				if !strings.Contains(hb.String(), "BARECDESC") && !strings.Contains(hb.String(), "barecmd") {
					c.Fail("harness-help-of-barecmd-not-rendered", hb.String())
					return
				}
				if strings.Contains(hb.String(), "LEAFCDESC") || strings.Contains(hb.String(), "leafcmd") {
					c.Fail("command-hidden-later-still-shown|help|level-without-tag-hidden-commands", excerpt(hb.String(), "leafcmd"))
					return
				}
			}
			b.Parser.Find("rm").Hidden = true
			b.Parser.Find("hidcmd").Hidden = false
			c.Hit("late-hidden-toggle")
		}
		if given && u.Owner != cd.d.Top && !contains(chain, u.Owner.Name) {
			c.Skip() // U is not in scope on this chain
		}
		text := ""
		func() {
			defer func() {
				if r := recover(); r != nil {
					c.Fail("panic|"+explore.PanicSite(), fmt.Sprint(r))
				}
			}()
			switch gen {
			case 0:
				if placement%2 == 1 {
					// on every other placement the program renders the help itself and the parser carries no HelpFlag
					b.Parser.Options &^= flags.HelpFlag
					c.Hit("WriteHelp-without-HelpFlag")
				}
				b.Parser.ParseArgs(argv) // may fail for a missing required option: the active chain is set all the same
				var buf bytes.Buffer
				b.Parser.WriteHelp(&buf)
				text = buf.String()
			case 1:
				hv := append([]string{}, argv...)
				if given {
					if u.Long != "" {
						hv = append(hv, "--"+u.LongNS+"=UGIVENX")
					} else {
						hv = append(hv, "-uUGIVENX")
					}
					c.Hit("value-given-before-help")
				}
				_, err := b.Parser.ParseArgs(append(hv, "--help"))
				fe, ok := err.(*flags.Error)
				if !ok || fe.Type != flags.ErrHelp {
					c.Fail("help-request-not-answered", fmt.Sprint(err))
					return
				}
				text = fe.Message
			case 2:
				var buf bytes.Buffer
				b.Parser.WriteManPage(&buf)
				text = buf.String()
			}
		}()
		if c.Failed() {
			return
		}
		// visibility model
		owner := u.Owner
		onChain := owner == cd.d.Top
		activeHidden := false
		{
			cur := cd.d.Top
			for _, w := range chain {
				if nx := cur.Find(w); nx != nil {
					cur = nx
					if nx == owner {
						onChain = true
					}
					if nx.Hidden {
						activeHidden = true
					}
				}
			}
		}
		if activeHidden && gen != 2 {
			c.Skip() // help for an active hidden command: not defined by the statement
		}
		groupHidden := u.Group != nil && u.Group.Hidden
		var visible bool
		if gen == 2 {
			visible = !v.hidden && !groupHidden && !owner.Hidden
		} else {
			visible = !v.hidden && !groupHidden && onChain
		}
		longNS := u.LongNS
		has := func(m string) bool { return strings.Contains(text, m) }
		hasShort := func() bool {
			if gen == 2 {
				return c16ManShortRe.MatchString(text)
			}
			return c16ShortRe.MatchString(text)
		}
		gname := []string{"help", "help", "man"}[gen]
		c.Outcome(gname, fmt.Sprint(visible), fmt.Sprint(placement, ci), fmt.Sprint(has("UDESCX"), has("UDFLTX"), has("UMASKX"), has("UENVX"), has("UCHBX"), has("UVALX"), has("ulongx")))
		// a value given on the command line is not the option's default (nor anything else the help text shows)
		if given && has("UGIVENX") {
			c.Fail("given-value-shown-in-help", excerpt(text, "UGIVENX"))
		}
		// a callback option has no value that could be shown as its default
		if gen != 2 {
			for _, ln := range strings.Split(text, "\n") {
				if strings.Contains(ln, "CBODESC") && strings.Contains(ln, "default") {
					c.Fail("default-shown-for-a-callback-option|"+gname, ln)
				}
			}
		}
		// a masked default's real value never appears (choices that repeat it are avoided when a mask is set)
		if v.def >= 2 && !v.choices && has("UDFLTX") {
			c.Fail("masked-default-shown|"+gname, excerpt(text, "UDFLTX"))
		}
		if !visible {
			c.Hit("invisible|" + gname)
			for _, m := range []string{"UDESCX", "UMASKX", "UENVX", "UCHBX", "UVALX", "ulongx", "UDFLTX"} {
				if has(m) {
					why := "inactive-command"
					switch {
					case v.hidden:
						why = "hidden-option"
					case groupHidden:
						why = "hidden-group"
					case owner.Hidden:
						why = "hidden-command"
					}
					c.Fail("invisible-item-shown|"+gname+"|"+why, excerpt(text, m))
					return
				}
			}
		} else {
			c.Hit("visible|" + gname)
			miss := func(what, m string) {
				c.Fail("visible-item-missing|"+gname+"|"+what, map[string]interface{}{"marker": m, "text": text})
			}
			if u.Long != "" && !has("--"+longNS) && !(gen == 2 && has(`\-\-`+longNS)) {
				miss("long-name", "--"+longNS)
			}
			if u.Short != "" && !hasShort() {
				miss("short-name", "-u")
			}
			if v.desc && !has("UDESCX 100%d of %s") {
				miss("description", "UDESCX 100%d of %s") // verbatim, including the per-cent signs
			}
			if v.valname && !has("UVALX") {
				miss("value-name", "UVALX")
			}
			if gen != 2 {
				if v.choices && !has("UCHBX") {
					miss("choices", "UCHBX")
				}
				if v.desc {
					switch v.def {
					case 1:
						if !has("UDFLTX%H") {
							miss("default", "UDFLTX%H")
						}
					case 2:
						if !has("UMASKX<0-100%>") {
							miss("default-mask", "UMASKX<0-100%>")
						}
					case 4:
						if !v.choices && !has("default: -") {
							miss("default", "default: -")
						}
					}
					if v.env && !has(u.EnvNS) {
						miss("env", u.EnvNS)
					}
				}
				// the row: description on the line of the names (or wrapped right below)
				if v.desc && u.Long != "" {
					i := strings.Index(text, "--"+longNS)
					j := strings.Index(text, "UDESCX")
					if i < 0 || j < i || strings.Count(text[i:j], "\n") > 0 {
						miss("description-not-on-the-option-row", "UDESCX")
					}
				}
			} else {
				if v.def == 1 && !has("UDFLTX%H") {
					miss("default", "UDFLTX%H")
				}
				if v.def == 2 && !has("UMASKX") {
					miss("default-mask", "UMASKX")
				}
				if v.def == 0 && v.env && !has(u.EnvNS) {
					miss("env", u.EnvNS)
				}
				if v.required && !has("required") {
					miss("required-mark", "required")
				}
			}
		}
		// bystanders and commands (fixed part of the declaration)
		if late {
			// the listing follows the current marks: rm gone, hidcmd listed
			for _, m := range []string{"RMDESC", "RMALX"} {
				if has(m) {
					c.Fail("command-hidden-later-still-shown|"+gname, excerpt(text, m))
					return
				}
			}
			if !has("HIDCDESC") {
				c.Fail("command-unhidden-later-not-shown|"+gname, text)
			}
			if gen != 2 && !c16InitialRe.MatchString(text) {
				// the field held J during the first use and holds I since: I is what the parse before this help text found
				c.Fail("default-of-an-earlier-parse-shown|"+gname, map[string]interface{}{"text": text})
			}
			return
		}
		if gen == 2 {
			if !c16TinyManRe.MatchString(text) {
				c.Fail("visible-item-missing|man|one-character-description", text)
				return
			}
			for _, m := range []string{"toplong", "TOPDESC", `\-\-y`, `\fIV\fR`, "ONECHARDESC", "subopt", "SUBODESC", "addopt", "ADDODESC", "cgopt", "deepopt", "rmopt", "ADDDESC", "ADDALX", "DEEPDESC", "RMALX", "RMDESC", "barecmd", "BARECDESC", "leafcmd", "LEAFCDESC", "leafopt", "LEAFODESC", "grouponly", "goopt", "GOODESC"} {
				if !has(m) {
					c.Fail("visible-item-missing|man|bystander", m)
					return
				}
			}
			for _, m := range []string{"hidgopt", "HIDGODESC", "hidcmd", "HIDCDESC", "hcopt", "HCODESC"} {
				if has(m) {
					c.Fail("invisible-item-shown|man|bystander", excerpt(text, m))
					return
				}
			}
			return
		}
		// a word that had to be broken is complete once the hyphen breaks are taken out again
		if !strings.Contains(c16HyphenBreak.ReplaceAllString(text, ""), c16LongWord) {
			c.Fail("visible-item-missing|help|over-long-word-of-a-description", map[string]interface{}{"text": text})
			return
		}
		if !c16TinyHelpRe.MatchString(text) {
			c.Fail("visible-item-missing|help|one-character-description", map[string]interface{}{"text": text})
			return
		}
		if !c16InitialRe.MatchString(text) {
			c.Fail("visible-item-missing|help|default-from-a-one-character-initial-value", map[string]interface{}{"text": text})
			return
		}
		if ci == 0 && (!c16TinyCmdRe.MatchString(text) || !has("TINYALX")) {
			c.Fail("visible-item-missing|help|one-character-command-description", map[string]interface{}{"text": text})
			return
		}
		if !c16PargbRe.MatchString(text) {
			c.Fail("visible-item-missing|help|one-character-positional-description", map[string]interface{}{"text": text})
			return
		}
		want := []string{"toplong", "TOPDESC", "--y=V", "ONECHARDESC", "sgns.subopt", "SUBODESC", "PARGADESC", "PARGA"}
		wantNot := []string{"hidgopt", "HIDGODESC", "HIDGNAME", "hidcmd", "HIDCDESC", "hcopt"}
		switch ci {
		case 0:
			want = append(want, "add", "ADDDESC", "ADDALX", "rm", "RMDESC", "RMALX")
			wantNot = append(wantNot, "addopt", "rmopt", "deepopt", "cgopt")
		case 1:
			want = append(want, "addopt", "ADDODESC", "cgopt", "CGODESC", "CARGADESC", "deep", "DEEPDESC")
			wantNot = append(wantNot, "rmopt", "deepopt")
		case 2:
			want = append(want, "addopt", "cgopt", "deepopt", "DEEPODESC")
			wantNot = append(wantNot, "rmopt")
		case 3:
			want = append(want, "rmopt", "RMODESC")
			wantNot = append(wantNot, "addopt", "deepopt", "cgopt")
		}
		for _, m := range want {
			if !has(m) {
				c.Fail("visible-item-missing|help|bystander", map[string]interface{}{"marker": m, "text": text})
				return
			}
		}
		for _, m := range wantNot {
			if has(m) {
				c.Fail("invisible-item-shown|help|bystander", excerpt(text, m))
				return
			}
		}
		_ = ref.Show
	}
	explore.Register(&explore.Check{
		ID:         "C16",
		Level:      "exploration",
		ShardDepth: 6,
		Body:       body,
		Rule: "option under test with every attribute vector {short only, long only, both} x description? x default {none, tag, tag+mask, tag+mask '-', the tag '-' itself} x env? x choices? (two; a single one when there is an env key and no default) x value-name? x hidden? (spelled yes / False / NO) x required? (768 vectors; defaults, masks and descriptions contain per-cent signs; without a default also as a bool-kinded Unmarshaler type) " +
			"x 10 placements (parser group, namespaced subgroup with env-namespace, hidden subgroup, command, command's group, hidden command, sub-subcommand, sibling command, subgroup nested in the env-namespaced subgroup without / with its own env-namespace) x 5 active chains (none, add, add deep, rm, the hidden command) " +
			"x {WriteHelp after a parse that selects the chain, the ErrHelp text of --help at that chain, WriteManPage} (+ the ErrHelp text requested after an occurrence of the option with a value, which must not show up; + a variant where one command is hidden and another un-hidden through the public Hidden field after a first help/man rendering on the same parser); every string is a unique marker; oracle: a visible option's markers (names, value name, choices, description, default or mask, env) are present and its description sits on its row, " +
			"nothing of a hidden option / hidden group / hidden or inactive command appears, a masked default's real value never appears; the fixed part of the declaration (bystander options, one of them with a long name and a value name of a single character each and a 154-character word in its description (complete after undoing the hyphen breaks), another whose whole description is one character, a positional argument and a command (with an alias) described by one character each, an option whose default is the one-character string its field holds, described positionals, commands with aliases, hidden command and group, a command without options of its own whose subcommand has one, a described command with a multi-byte name, a func(string) option with a description) is checked on every leaf; " +
			"distinct = distinct (generator, visible?, placement, chain, markers present)",
		Assumptions:  []string{"not demanded of the man page: choices, positional arguments, env beside a default (man.go never rendered them)", "help of an active hidden command is not defined by the statement and is skipped"},
		RequiredHits: []string{"WriteHelp-without-HelpFlag", "visible|help", "invisible|help", "visible|man", "invisible|man", "value-given-before-help"},
		Bound:        [2]string{"complete product", "complete product"},
		BudgetS:      [2]int{170, 600},
	})
}

func excerpt(text, marker string) string {
	i := strings.Index(text, marker)
	if i < 0 {
		return ""
	}
	a, b := i-120, i+120
	if a < 0 {
		a = 0
	}
	if b > len(text) {
		b = len(text)
	}
	return text[a:b]
}
