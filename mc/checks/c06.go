package checks

import (
	"fmt"
	"reflect"
	"strings"

	flags "github.com/jessevdk/go-flags"

	"verif/mc/decl"
	"verif/mc/explore"
	"verif/mc/ref"
)

// C06 — required options and argument counts are enforced.

var c06Truthy = []string{"yes", "true", "1"}

// layout: 0 none; 1 three scalars, struct required; 2 two scalars, first has required; 3 scalar + rest required:"2";
// 4 rest required:"1-2"; 5 rest required:"0-1"; 6 two scalars optional (no marks)
func c06Pos(layout int) ([]*decl.PosArg, string) {
	pa := func(n, req string, t *decl.Type) *decl.PosArg {
		return &decl.PosArg{Field: n, Name: "ARG%" + n, Type: t, Required: req}
	}
	switch layout {
	case 1: // three, so that up to three of them are missing at once (the message has to name all of them)
		return []*decl.PosArg{pa("X", "", decl.TString), pa("Y", "", decl.TString), pa("W", "", decl.TString)}, "yes"
	case 2:
		return []*decl.PosArg{pa("X", "yes", decl.TString), pa("Y", "", decl.TString)}, ""
	case 3:
		return []*decl.PosArg{pa("X", "", decl.TString), pa("Z", "2", decl.TStrings)}, ""
	case 4:
		return []*decl.PosArg{pa("Z", "1-2", decl.TStrings)}, ""
	case 5:
		return []*decl.PosArg{pa("Z", "0-1", decl.TStrings)}, ""
	case 6, 7: // 7: as 6, but the program sets ArgsRequired on the command itself
		return []*decl.PosArg{pa("X", "", decl.TString), pa("Y", "", decl.TString)}, ""
	case 8: // a rest field without tag constraint whose maximum the program sets through Arg.RequiredMaximum
		z := pa("Z", "", decl.TStrings)
		z.MaxAPI = 1
		return []*decl.PosArg{z}, ""
	}
	return nil, ""
}

func c06Decl(mask int, layout int, onB bool, cmdRequired bool, withConfig bool) *decl.Decl {
	req := func(i int) string {
		if mask&(1<<uint(i)) != 0 {
			return c06Truthy[i%3]
		}
		if i%2 == 0 {
			return ""
		}
		return []string{"false", "no", "0"}[i%3]
	}
	top := &decl.Cmd{Name: "app", SubOptional: true, Opts: []*decl.Opt{
		{Field: "P1", Short: "p", Long: "pone", Type: decl.TBool, Required: req(0)},
		{Field: "P2", Short: "P", Long: "p%two", Type: decl.TString, Required: req(1)},
	}}
	if withConfig {
		// declared last: its default fires after the required options have been visited by the default pass
		top.Opts = append(top.Opts, &decl.Opt{Field: "Config", Long: "config", Type: decl.TFuncS, Defaults: []string{"f"}})
	}
	b := &decl.Cmd{Field: "B", Name: "b", Opts: []*decl.Opt{{Field: "B1", Short: "r", Long: "bone", Type: decl.TBools, Required: req(4)}}}
	a := &decl.Cmd{Field: "A", Name: "a", SubOptional: true, Cmds: []*decl.Cmd{b}, Opts: []*decl.Opt{
		{Field: "A1", Short: "q", Long: "aone", Type: decl.TFunc0, Required: req(2)},
		{Field: "A2", Long: "atwo", Type: decl.TString, Required: req(3)},
	}}
	// c's option re-declares the long name of the parser's first option (inside c, --pone is c's; the parser's stays -p)
	cc := &decl.Cmd{Field: "C", Name: "c", Opts: []*decl.Opt{{Field: "C1", Short: "t", Long: "pone", Type: decl.TBool, Required: req(5)}}}
	top.Cmds = []*decl.Cmd{a, cc}
	pos, preq := c06Pos(layout)
	if onB {
		b.Pos, b.PosRequired, b.ArgsRequiredAPI = pos, preq, layout == 7
	} else {
		top.Pos, top.PosRequired, top.ArgsRequiredAPI = pos, preq, layout == 7
	}
	if cmdRequired {
		// a command is mandatory at both levels: a missing required option must still be reported as such
		top.SubOptional, a.SubOptional = false, false
	}
	return (&decl.Decl{Top: top, Options: flags.PassDoubleDash}).Finish()
}

var c06Units = [][]string{{"-p"}, {"--p%two=v"}, {"-P", "v"}, {"a"}, {"-q"}, {"--atwo", "v"}, {"b"}, {"-r"}, {"c"}, {"-t"}, {"--pone"}, {"-pq"}, {"w"}, {"x"}, {"--"}, {""}}

func init() {
	cache := map[string]*decl.Decl{}
	body := func(c *explore.Ctx) {
		mask := c.Choose(64)
		lay := c.Deviate(17) // 0 = none; 1..8 on b; 9..16 on the parser
		cmdReq := c.Deviate(2) == 1
		// 1: an INI file read before the parse supplies the parser's string option and a's string option;
		// 2: the same file is read by a callback option's default, declared after the required options
		iniSupply := c.Deviate(4) // 3: as 1, read in as-defaults mode
		// the same parser has parsed another line before: 1 = [a -q --atwo v] (command a with both of its options), 2 = [c -t];
		// the options given there count as supplied for the rest of the parser's life, nothing else of that parse may matter
		// 3 = the parser has parsed the empty line once (reaching the required check), then the program inverts the Required field of
		//     every option through the public API: the marks in force are the complement of the declared ones
		used := c.Deviate(4)
		api := c.Bool()
		layout, onB := 0, false
		if lay >= 1 && lay <= 8 {
			layout, onB = lay, true
		} else if lay > 8 {
			layout = lay - 8
		}
		maxDepth := 3
		if c.Thorough {
			maxDepth = 4
		}
		n := c.Choose(maxDepth + 1)
		var argv []string
		for i := 0; i < n; i++ {
			argv = append(argv, c06Units[c.Choose(len(c06Units))]...)
		}
		key := fmt.Sprintf("m%d/l%d/%v/%v", mask, lay, cmdReq, iniSupply == 2)
		d := cache[key]
		if d == nil {
			if len(cache) > 100 {
				cache = map[string]*decl.Decl{}
			}
			d = c06Decl(mask, layout, onB, cmdReq, iniSupply == 2)
			cache[key] = d
		}
		c.Describe(func() interface{} {
			return map[string]interface{}{"tree": describeTree(d.Top), "api_path": api, "argv": argv, "earlier_parse_on_same_parser": [][]string{nil, {"a", "-q", "--atwo", "v"}, {"c", "-t"}, {}}[used], "required_marks_inverted_through_the_API_after_that_parse": used == 3,
				"ini_file_supplying_P2_and_A2": []string{"not read", "read before ParseArgs", "read by the default of a func(string) option declared last on the parser", "read before ParseArgs in as-defaults mode"}[iniSupply]}
		})
		cfg := &ref.Config{D: d}
		if used == 3 {
			// the model reads the declaration whose marks are the complement
			k2 := fmt.Sprintf("m%d/l%d/%v/%v", 63^mask, lay, cmdReq, iniSupply == 2)
			d2 := cache[k2]
			if d2 == nil {
				d2 = c06Decl(63^mask, layout, onB, cmdReq, iniSupply == 2)
				cache[k2] = d2
			}
			cfg = &ref.Config{D: d2}
			c.Hit("marks-inverted-through-the-API")
		}
		if iniSupply != 0 {
			cfg.Supplied = map[*decl.Opt]bool{}
			for _, o := range d.EveryOpt() {
				if o.Field == "P2" || o.Field == "A2" {
					cfg.Supplied[o] = true
				}
			}
			c.Hit("supplied-by-ini")
		}
		if used == 1 || used == 2 {
			cfg.Supplied = map[*decl.Opt]bool{}
			for _, o := range d.EveryOpt() {
				if (used == 1 && (o.Field == "A1" || o.Field == "A2")) || (used == 2 && o.Field == "C1") {
					cfg.Supplied[o] = true
				}
			}
			c.Hit("parser-used-before")
		}
		res := ref.Run(cfg, argv)
		recordStates(c, key, res, nil)
		var b *decl.Built
		if api {
			b = d.BuildAPI()
		} else {
			b = d.BuildTags()
		}
		if b.Err != nil {
			c.Fail("setup-error", b.Err.Error())
			return
		}
		if iniSupply != 0 {
			var iniErr error
			readIni := func() {
				ip := flags.NewIniParser(b.Parser)
				ip.ParseAsDefaults = iniSupply == 3
				iniErr = ip.Parse(strings.NewReader("[Application Options]\nP2 = v\n[a]\nA2 = v\n"))
			}
			if iniSupply == 1 || iniSupply == 3 {
				readIni()
			} else {
				for _, o := range d.Top.Opts {
					if o.Field == "Config" {
						b.Vals[o].Set(reflect.ValueOf(func(string) { readIni() }))
					}
				}
			}
			defer func() {
				if iniErr != nil {
					c.Fail("harness-ini-read-failed", iniErr.Error())
				}
			}()
		}
		if used == 3 {
			if wr, _ := earlierParse(b, &ref.Config{D: d}, nil); wr.Panic != nil {
				c.Fail("panic|"+wr.PanicSite, fmt.Sprint("earlier parse of the empty line: ", wr.Panic))
				return
			}
			for _, o := range d.EveryOpt() {
				fo := b.Option(o)
				if fo == nil {
					c.Fail("harness-option-not-found", o.ID)
					return
				}
				fo.Required = !fo.Required
			}
		}
		if used == 1 || used == 2 {
			w := [][]string{nil, {"a", "-q", "--atwo", "v"}, {"c", "-t"}}[used]
			wr, _ := earlierParse(b, &ref.Config{D: d}, w)
			if wr.Panic != nil {
				c.Fail("panic|"+wr.PanicSite, fmt.Sprint("earlier parse ", w, ": ", wr.Panic))
				return
			}
			if fe, ok := wr.Err.(*flags.Error); wr.Err != nil && (!ok || fe.Type != flags.ErrRequired) {
				c.Fail("earlier-parse-outcome", fmt.Sprint(w, ": ", wr.Err)) // it may lack the parser's own required options, nothing else
				return
			}
		}
		rr := runParser(b, cfg, argv, runOpts{CommandHandler: true})
		if rr.Panic != nil {
			c.Fail("panic|"+rr.PanicSite, fmt.Sprint(rr.Panic))
			return
		}
		msg := ""
		fe, isFE := rr.Err.(*flags.Error)
		if isFE {
			msg = fe.Message
		}
		c.Outcome(key, errType(rr.Err), msg)
		if len(res.Unspecified) > 0 {
			return
		}
		wantReq := res.Fault != nil && res.Fault.Type == flags.ErrRequired && !res.Fault.Raw
		gotReq := isFE && fe.Type == flags.ErrRequired
		switch {
		case wantReq && rr.Err == nil:
			c.Fail("missing-item-accepted|"+c06Kind(res.Fault), map[string]interface{}{"missing": res.Fault.Names})
		case wantReq && !gotReq:
			c.Fail("missing-item-wrong-error|"+errType(rr.Err), map[string]interface{}{"missing": res.Fault.Names, "error": fmt.Sprint(rr.Err)})
		case !wantReq && gotReq:
			c.Fail("demands-item-not-required-here", map[string]interface{}{"message": msg, "model_fault": fmt.Sprint(res.Fault)})
		case wantReq && gotReq:
			c.Hit("required-fault|" + c06Kind(res.Fault))
			for _, nme := range res.Fault.Names {
				if !strings.Contains(msg, nme) {
					c.Fail("message-omits-missing|"+c06Kind(res.Fault), map[string]interface{}{"message": msg, "missing": res.Fault.Names})
					break
				}
			}
			for _, nme := range res.Fault.Not {
				if strings.Contains(msg, nme) {
					c.Fail("message-names-supplied-or-unselected|"+c06Kind(res.Fault), map[string]interface{}{"message": msg, "must_not_name": nme})
					break
				}
			}
			if len(rr.CmdCalls) != 0 {
				c.Fail("executed-despite-missing-item", rr.CmdCalls)
			}
		default:
			if res.Fault == nil {
				c.Hit("clean")
			}
		}
	}
	explore.Register(&explore.Check{
		ID:         "C06",
		Level:      "model_checking",
		ShardDepth: 2,
		Body:       body,
		DevBound:   func(bool) int { return 1 },
		Rule: "tree parser -> a -> b, sibling c, 6 options (c's option re-declares the long name of one of the parser's); all 64 subsets marked required (spellings yes/true/1, the others unmarked or marked false/no/0) x positional layouts " +
			"{none, 3 scalars struct-required (up to three missing at once), per-field required, rest required 2, 1-2, 0-1, optional, two scalars made required by setting Command.ArgsRequired in the program, a rest field whose maximum of 1 the program sets through Arg.RequiredMaximum (no minimum)} on b or on the parser x {tags, API} x every sequence of <= 3 (quick) / <= 4 (thorough) units " +
			"supplying options by short, long=, separate and cluster spellings, command words, plain words, the empty word and the -- terminator (PassDoubleDash set; words after it still count for the positional constraints); one more deviation makes subcommands mandatory at both inner levels (a missing required option is still ErrRequired, not ErrCommandRequired); option types bool, string, func(), []bool; one more deviation has an INI file supply two of the options, read before the parse (plain or as defaults) or by the default of a callback option declared after them; one more deviation re-uses a parser that has already parsed [a -q --atwo v] or [c -t] (the options given there stay supplied, nothing else of that parse matters), or one whose Required fields the program inverts through the public API after a first parse of the empty line; oracle = CLM missing set: ErrRequired iff something on the active chain is missing, " +
			"message names every missing item and none that is supplied or belongs to an unselected command; nothing executed",
		Assumptions:  []string{"required options carry no default/env here (whether a default supplies a required option is not settled by the statement)", "markers are long option names / positional names chosen so that none is a substring of another"},
		RequiredHits: []string{"clean", "required-fault|options", "required-fault|positionals", "supplied-by-ini", "parser-used-before", "marks-inverted-through-the-API"},
		Bound:        [2]string{"unit sequences <= 3", "unit sequences <= 4"},
		BudgetS:      [2]int{170, 1500},
	})
}

func c06Kind(f *ref.Fault) string {
	for _, n := range f.Names {
		if strings.HasPrefix(n, "-") {
			return "options"
		}
	}
	return "positionals"
}
