package checks

import (
	"fmt"
	"strconv"
	"strings"

	flags "github.com/jessevdk/go-flags"

	"verif/mc/decl"
	"verif/mc/explore"
	"verif/mc/ref"
)

// C02 — all documented spellings of an option occurrence are interchangeable.

type c02Kind struct {
	T    *decl.Type
	Base string
}

var c02Kinds = []c02Kind{{decl.TString, ""}, {decl.TInt, ""}, {decl.TFloat64, ""}, {decl.TStrings, ""}, {decl.TMapSS, ""}, {decl.TFuncS, ""}, {decl.TInt, "16"}, {decl.TInts, ""}, {decl.TOnOff, ""}, {decl.TDuration, ""}, {decl.TPInts, ""}}
var c02Shorts = []string{"x", "é", "€"}
var c02Alpha = []string{"v", "=", "-", ".", "5", "0", "\"", "\\", "é", ":", " ", "f", "I"}

type c02Decl struct {
	d *decl.Decl
	x *decl.Opt
}

var c02Cache = map[string]*c02Decl{}

func c02Get(kind int, short string, optional bool, pdd bool, nested bool) *c02Decl {
	key := fmt.Sprintf("%d/%s/%v/%v/%v", kind, short, optional, pdd, nested)
	if cd := c02Cache[key]; cd != nil {
		return cd
	}
	k := c02Kinds[kind]
	x := &decl.Opt{Field: "X", Short: short, Long: "name", Type: k.T, Base: k.Base}
	if optional {
		x.Optional = "yes"
		x.OptionalVal = []string{"7"}
	}
	top := &decl.Cmd{Name: "app", SubOptional: true, Opts: []*decl.Opt{
		{Field: "Verbose", Short: "v", Long: "verbose", Type: decl.TBools},
		{Field: "Other", Short: "o", Long: "other", Type: decl.TString},
		{Field: "Four", Short: "4", Long: "four", Type: decl.TBool}, // a digit as short name: -42 is still a negative number after a numeric option
		x,
	}}
	if nested {
		// the option sits in a plain group inside a namespaced group: its long name is --db.name, its short name unchanged
		top.Opts = top.Opts[:len(top.Opts)-1]
		top.Groups = []*decl.Group{{Field: "Db", Name: "Db", Namespace: "db", Groups: []*decl.Group{{Field: "Pool", Name: "Pool", Opts: []*decl.Opt{x}}}}}
	}
	// a command that uses the same short letter for a flag (only reachable after its name)
	top.Cmds = []*decl.Cmd{{Field: "Sync", Name: "sync", Opts: []*decl.Opt{{Field: "Dry", Short: short, Long: "dry", Type: decl.TBool}}}}
	d := &decl.Decl{Top: top}
	if pdd {
		d.Options = flags.PassDoubleDash
	}
	cd := &c02Decl{d: d.Finish(), x: x}
	c02Cache[key] = cd
	return cd
}

type c02Spelling struct {
	name string
	toks []string
}

// observe runs one argument vector and renders the complete outcome.
var c02WarmUp bool // per leaf: the parser has parsed [sync -<short> -<short><short>] before (same for every spelling that is compared)

func c02Observe(cd *c02Decl, argv []string) (string, interface{}) {
	b := cd.d.BuildTags()
	if b.Err != nil {
		return "setup-error:" + b.Err.Error(), nil
	}
	if c02WarmUp && cd.x != nil {
		if wr := runParser(b, &ref.Config{D: cd.d}, []string{"sync", "-" + cd.x.Short, "-" + cd.x.Short + cd.x.Short}, runOpts{}); wr.Err != nil || wr.Panic != nil {
			return fmt.Sprint("warm-up-failed:", wr.Err, wr.Panic), nil
		}
		rezero(b)
	}
	rr := runParser(b, &ref.Config{D: cd.d}, argv, runOpts{})
	if rr.Panic != nil {
		return "panic", rr.Panic
	}
	if rr.Err != nil {
		return "error:" + errType(rr.Err), nil
	}
	var sb strings.Builder
	sb.WriteString("ok")
	for _, o := range cd.d.EveryOpt() {
		if o.Type.IsFunc() {
			fmt.Fprintf(&sb, "|%s=calls%q", o.Field, *b.Calls[o])
		} else {
			fmt.Fprintf(&sb, "|%s=%s", o.Field, ref.Show(b.Vals[o]))
		}
	}
	fmt.Fprintf(&sb, "|rest=%q", rr.Rest)
	return sb.String(), nil
}

func init() {
	// all value strings up to length 3 (quick) / 4 (thorough)
	valsQ := append([]string{""}, allStrings(c02Alpha, 1, 3)...)
	valsT := append([]string{""}, allStrings(c02Alpha, 1, 4)...)
	extra := []string{"-5", "-.5", "-ff", "--", "-x", "a=b", "k:v", "-5.5e1", "-v", "--name", "-é", "-0.5", "-007", "-0", "-9", "-1e3", "-00", "-9.99", "on", "off", "-5s", "-1h2m", "-1f", "5s", "-1.5s", "-42", "-4", "-4.5", "-44", "caf\xe9", "\xff", "`code`", "`a b` c"}

	body := func(c *explore.Ctx) {
		part := c.Choose(4)
		if part == 3 {
			c02InCommand(c)
			return
		}
		if part == 1 {
			c02Clusters(c)
			return
		}
		if part == 2 {
			c02Added(c)
			return
		}
		kind := c.Choose(len(c02Kinds))
		short := c02Shorts[c.Choose(len(c02Shorts))]
		optional := c.Bool()
		pdd := c.Bool()
		ctx := c.Choose(3)
		c02WarmUp = c.Deviate(2) == 1
		nested := false
		if ctx == 0 && !optional && !pdd && !c02WarmUp {
			nested = c.Bool()
		}
		vals := valsQ
		if c.Thorough {
			vals = valsT
		}
		vi := c.Choose(len(vals) + len(extra))
		var V string
		if vi < len(vals) {
			V = vals[vi]
		} else {
			V = extra[vi-len(vals)]
		}
		cd := c02Get(kind, short, optional, pdd, nested)
		k := c02Kinds[kind]
		S, L := "-"+short, "--name"
		if nested {
			L = "--db.name"
		}
		Q := strconv.Quote(V)
		base := cd.x.BaseN()
		// admissibility of the separate-token form for an argument text
		sepOK := func(arg string) bool {
			if optional {
				return false
			}
			if pdd && arg == "--" {
				return false
			}
			if ref.IsOptionToken(arg) {
				if !k.T.IsSignedNumber() {
					return false
				}
				// a negative number for a signed numeric option: a clear numeral of the option's own type and base
				elem := k.T.RT
				if k.T.IsSlice() {
					elem = elem.Elem()
				}
				v := ref.ConvScalar(elem, base, arg)
				return v.Class == ref.MustAccept
			}
			return true
		}
		var sps []c02Spelling
		addForms := func(tag, arg string) {
			if arg != "" && !strings.HasPrefix(arg, "=") {
				sps = append(sps, c02Spelling{tag + "-xV", []string{S + arg}})
			}
			sps = append(sps, c02Spelling{tag + "-x=V", []string{S + "=" + arg}})
			sps = append(sps, c02Spelling{tag + "--name=V", []string{L + "=" + arg}})
			if sepOK(arg) {
				sps = append(sps, c02Spelling{tag + "-x V", []string{S, arg}})
				sps = append(sps, c02Spelling{tag + "--name V", []string{L, arg}})
			}
		}
		if !strings.HasPrefix(V, `"`) {
			addForms("", V) // a plain V that starts with a quote *is* a (possibly malformed) literal: only its quoted form is unambiguous
		}
		addForms("quoted ", Q)
		wrap := func(toks []string) []string {
			switch ctx {
			case 1:
				return append(append([]string{"-v"}, toks...), "--other=1")
			case 2:
				return append(append([]string{}, toks...), "w")
			}
			return toks
		}
		c.Describe(func() interface{} {
			return map[string]interface{}{"part": "spellings", "type": k.T.Name, "base": base, "short": short, "optional_argument": optional, "pass_double_dash": pdd, "context": ctx, "V": V, "parser_used_before": c02WarmUp, "option_in_plain_group_inside_namespaced_group": nested}
		})
		var first string
		var firstSp c02Spelling
		for i, sp := range sps {
			obs, pan := c02Observe(cd, wrap(sp.toks))
			if pan != nil {
				c.Fail("panic|"+sp.name, fmt.Sprint(pan))
				return
			}
			if i == 0 {
				first, firstSp = obs, sp
				c.Outcome(k.T.Name, short, obs)
				continue
			}
			if obs != first {
				sc := "ascii"
				if len(short) > 1 {
					sc = "multibyte"
				}
				tn := k.T.Name
				if k.Base != "" {
					tn += "/base" + k.Base
				}
				c.Fail(fmt.Sprintf("pair=%s/%s|short=%s|%s|%s", firstSp.name, sp.name, sc, tn, c02ValueClass(V, sp.name)), map[string]interface{}{
					firstSp.name: map[string]interface{}{"argv": wrap(firstSp.toks), "outcome": first},
					sp.name:      map[string]interface{}{"argv": wrap(sp.toks), "outcome": obs}})
				return
			}
		}
		c.Hit(fmt.Sprintf("spellings=%d", len(sps)))
		if strings.HasPrefix(first, "ok") {
			c.Hit("agreeing-success")
		} else {
			c.Hit("agreeing-error")
		}
	}
	explore.Register(&explore.Check{
		ID:         "C02",
		Level:      "exploration",
		ShardDepth: 6,
		Body:       body,
		Rule: "option types {string, int, float64, []string, map[string]string, func(string), int base 16, []int, []*int, a bool-kinded Unmarshaler, time.Duration} (a flag with the digit short name -4 is declared next to it) x short name {x, é (2 bytes), € (3 bytes)} x optional-argument {no, yes} x PassDoubleDash {off, on} x context {alone, between two other options, before a plain word} x {fresh parser, parser that parsed [sync -x -xx] before, where sync declares the same short letter as a flag} " +
			"x value V in every string of length <= 3 (quick) / <= 4 (thorough) over {v = - . 5 0 \" \\ é : space f I} plus 33 hand-picked values (negative numbers in three notations, --, option-looking words, bytes that are not valid UTF-8, back-quoted text); in the simplest cell also with the option declared in a plain group inside a namespaced group (long name --db.name); for each cell all admissible spellings among " +
			"{-xV, -x=V, -x V, --name=V, --name V} x {V, V as a double-quoted Go literal} are parsed and must give one identical outcome (all values, callback log, remaining arguments, error type); " +
			"plus argument-taking options (string, int, []string; short name o or é) that only a command or a nested command declares, the parser itself having flags only, compared after the command word incl. the form at the end of a cluster (-jo V); plus a string option and an int option handed over with (*Group).AddOption (5 values each, negative numerals for the int, x all spellings, plain and quoted); plus every flag cluster of <= 4 over {a (bool), b ([]bool), é (func())} and every cluster ending in an argument-taking option (x or é) against its separated form; distinct = distinct (type, short, outcome)",
		Assumptions:  []string{"separate-token form demanded only where the statement allows it: not for optional-argument options, not when V has option syntax unless V is a clear numeral of the signed numeric option's own type and base, not for -- under PassDoubleDash", "-xV not demanded when V is empty or starts with '='"},
		RequiredHits: []string{"agreeing-success", "agreeing-error", "spellings=10", "cluster-compared", "cluster-with-argument", "added-option-spellings", "added-int-negative-accepted", "in-command-compared"},
		Bound:        [2]string{"values <= 3 characters", "values <= 4 characters"},
		BudgetS:      [2]int{170, 1500},
	})
}

func c02ValueClass(v, spelling string) string {
	if len(v) > 1 && v[0] == '-' {
		switch {
		case v[1] >= '0' && v[1] <= '9':
			return "value=minus-decimal-digit"
		case v[1] == '.':
			return "value=minus-leading-dot"
		case (v[1] >= 'a' && v[1] <= 'z') || (v[1] >= 'A' && v[1] <= 'Z'):
			return "value=minus-letter"
		case v[1] == '-':
			return "value=double-dash"
		}
		return "value=minus-other"
	}
	switch {
	case v == "":
		return "value=empty"
	case strings.HasPrefix(v, "="):
		return "value=leading-equals"
	case strings.Contains(v, "="):
		return "value=contains-equals"
	case strings.HasPrefix(v, `"`):
		return "value=leading-quote"
	}
	return "value=other"
}

var c02ClusterDecl *decl.Decl
var c02ClusterArgs = map[string]*decl.Opt{}

func c02Clusters(c *explore.Ctx) {
	if c02ClusterDecl == nil {
		x := &decl.Opt{Field: "X", Short: "x", Long: "xopt", Type: decl.TString}
		e := &decl.Opt{Field: "E", Short: "ë", Long: "eopt", Type: decl.TInts}
		top := &decl.Cmd{Name: "app", Opts: []*decl.Opt{
			{Field: "A", Short: "a", Long: "aflag", Type: decl.TBool},
			{Field: "B", Short: "b", Long: "bflag", Type: decl.TBools},
			{Field: "C", Short: "é", Long: "cflag", Type: decl.TFunc0},
			x, e,
		}}
		c02ClusterDecl = (&decl.Decl{Top: top}).Finish()
		c02ClusterArgs["x"], c02ClusterArgs["ë"] = x, e
	}
	cd := &c02Decl{d: c02ClusterDecl}
	letters := []string{"a", "b", "é"}
	n := 1 + c.Choose(4)
	var word []string
	for i := 0; i < n; i++ {
		word = append(word, letters[c.Choose(3)])
	}
	tail := c.Choose(3) // 0: flags only; 1: ends in -x V; 2: ends in -ë V
	ctx := c.Choose(2)
	var clustered, separated []string
	cl := "-" + strings.Join(word, "")
	for _, w := range word {
		separated = append(separated, "-"+w)
	}
	switch tail {
	case 0:
		clustered = []string{cl}
	case 1:
		clustered = []string{cl + "x", "val"}
		separated = append(separated, "-x", "val")
	case 2:
		clustered = []string{cl + "ë", "-4"}
		separated = append(separated, "-ë", "-4")
	}
	if ctx == 1 {
		clustered = append(clustered, "w")
		separated = append(separated, "w")
	}
	c.Describe(func() interface{} {
		return map[string]interface{}{"part": "clusters", "clustered": clustered, "separated": separated}
	})
	o1, p1 := c02Observe(cd, clustered)
	o2, p2 := c02Observe(cd, separated)
	if p1 != nil || p2 != nil {
		c.Fail("panic|cluster", fmt.Sprint(p1, p2))
		return
	}
	c.Outcome("cluster", o1)
	c.Hit("cluster-compared")
	if tail != 0 {
		c.Hit("cluster-with-argument")
	}
	if o1 != o2 {
		c.Fail(fmt.Sprintf("cluster-vs-separated|tail=%d", tail), map[string]interface{}{"clustered": o1, "separated": o2})
	}
}

// c02Added: an option handed to the library with (*Group).AddOption is spelled like any other.
func c02Added(c *explore.Ctx) {
	numeric := c.Bool() // the added option is an int (a negative numeral is then admissible as a separate token)
	vals := []string{"v", "a b", "", "x=y", "é"}
	if numeric {
		vals = []string{"5", "-5", "-07", "0", "x"}
	}
	V := vals[c.Choose(len(vals))]
	Q := strconv.Quote(V)
	forms := [][]string{{"--added=" + V}, {"--added", V}, {"-A=" + V}, {"-A", V}, {"--added=" + Q}, {"--added", Q}, {"-A=" + Q}, {"-A" + Q}}
	if V != "" {
		forms = append(forms, []string{"-A" + V})
	}
	c.Describe(func() interface{} {
		return map[string]interface{}{"part": "option added with AddOption", "V": V, "int_option": numeric}
	})
	first := ""
	for i, f := range forms {
		if strings.HasPrefix(V, "=") && len(f) == 1 && strings.HasPrefix(f[0], "-A") && !strings.HasPrefix(f[0], "-A=") {
			continue
		}
		var base struct {
			Verbose bool `short:"v"`
		}
		p := flags.NewParser(&base, flags.None)
		var s string
		var n int
		if numeric {
			p.Command.Group.Find("Application Options").AddOption(&flags.Option{LongName: "added", ShortName: 'A'}, &n)
		} else {
			p.Command.Group.Find("Application Options").AddOption(&flags.Option{LongName: "added", ShortName: 'A'}, &s)
		}
		obs := ""
		func() {
			defer func() {
				if r := recover(); r != nil {
					obs = fmt.Sprint("panic: ", r)
				}
			}()
			rest, err := p.ParseArgs(f)
			if err != nil {
				obs = "error:" + errType(err) // what is handed back beside an error is not part of the statement
			} else {
				obs = fmt.Sprintf("ok|%q|%d|%q", s, n, rest)
			}
		}()
		if strings.HasPrefix(obs, "panic") {
			c.Fail("panic|added-option", obs)
			return
		}
		if i == 0 {
			first = obs
			c.Outcome("added", obs)
			continue
		}
		if obs != first {
			kind := "string"
			if numeric {
				kind = "int"
			}
			c.Fail("pair=added-option|"+kind+"|"+c02ValueClass(V, ""), map[string]interface{}{"argv_a": forms[0], "outcome_a": first, "argv_b": f, "outcome_b": obs})
			return
		}
	}
	c.Hit("added-option-spellings")
	if numeric && strings.HasPrefix(first, "ok") && strings.HasPrefix(V, "-") {
		c.Hit("added-int-negative-accepted")
	}
}

var c02CmdDecls = map[string]*c02Decl{}

// c02InCommand: the only argument-taking options are declared by a command (the parser itself has flags only); the
// spellings are compared after the command word, where those options are in scope.
func c02InCommand(c *explore.Ctx) {
	short := []string{"o", "é"}[c.Choose(2)]
	kind := c.Choose(3)
	t := []*decl.Type{decl.TString, decl.TInt, decl.TStrings}[kind]
	vals := [][]string{{"v", "a b", "x=y", "-", "o", short + "x"}, {"5", "-5", "007", "x"}, {"v", "", "k:v"}}[kind]
	V := vals[c.Choose(len(vals))]
	nested := c.Bool() // the command is a subcommand of another command
	key := fmt.Sprint(short, kind, nested)
	cd := c02CmdDecls[key]
	if cd == nil {
		x := &decl.Opt{Field: "X", Short: short, Long: "output", Type: t}
		build := &decl.Cmd{Field: "Build", Name: "build", Opts: []*decl.Opt{x, {Field: "J", Short: "j", Long: "jflag", Type: decl.TBool}}}
		top := &decl.Cmd{Name: "app", Opts: []*decl.Opt{{Field: "Verbose", Short: "v", Long: "verbose", Type: decl.TBools}, {Field: "Quiet", Short: "q", Long: "quiet", Type: decl.TBool}}}
		if nested {
			top.Cmds = []*decl.Cmd{{Field: "Outer", Name: "outer", Opts: []*decl.Opt{{Field: "W", Short: "w", Long: "wflag", Type: decl.TBool}}, Cmds: []*decl.Cmd{build}}}
		} else {
			top.Cmds = []*decl.Cmd{build}
		}
		cd = &c02Decl{d: (&decl.Decl{Top: top}).Finish(), x: nil}
		c02CmdDecls[key] = cd
	}
	pre := []string{"-v", "build"}
	if nested {
		pre = []string{"outer", "-w", "build"}
	}
	S, L := "-"+short, "--output"
	forms := []c02Spelling{{"-x=V", []string{S + "=" + V}}, {"--name=V", []string{L + "=" + V}}}
	if V != "" && !strings.HasPrefix(V, "=") {
		forms = append(forms, c02Spelling{"-xV", []string{S + V}}) // (-jxV is no spelling: only the first letter of a token may be followed by its argument)
	}
	if !ref.IsOptionToken(V) || (t == decl.TInt && ref.ConvScalar(t.RT, 10, V).Class == ref.MustAccept) {
		forms = append(forms, c02Spelling{"-x V", []string{S, V}}, c02Spelling{"--name V", []string{L, V}}, c02Spelling{"-jx V", []string{"-j" + short, V}})
	}
	c.Describe(func() interface{} {
		return map[string]interface{}{"part": "argument-taking options declared by a command only", "type": t.Name, "short": short, "V": V, "command_is_nested": nested}
	})
	first, firstName := "", ""
	for i, f := range forms {
		argv := append(append([]string{}, pre...), f.toks...)
		if strings.HasPrefix(f.name, "-j") {
			argv = append(argv, "-j") // the clustered forms carry the flag themselves: give it to the others as well
			argv = argv[:len(argv)-1]
		} else {
			argv = append(append(append([]string{}, pre...), "-j"), f.toks...)
		}
		obs, pan := c02Observe(cd, argv)
		if pan != nil {
			c.Fail("panic|"+f.name, fmt.Sprint(pan))
			return
		}
		if i == 0 {
			first, firstName = obs, f.name
			c.Outcome("in-command", t.Name, short, obs)
			continue
		}
		if obs != first {
			c.Fail(fmt.Sprintf("pair=%s/%s|in-command|%s|%s", firstName, f.name, t.Name, c02ValueClass(V, f.name)), map[string]interface{}{"first": first, "this": obs, "argv": argv})
			return
		}
	}
	c.Hit("in-command-compared")
}
