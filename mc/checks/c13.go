package checks

import (
	"bytes"
	"fmt"
	"strings"

	flags "github.com/jessevdk/go-flags"

	"verif/mc/decl"
	"verif/mc/explore"
	"verif/mc/ref"
)

// C13 — an INI entry means the same as the corresponding command-line flag.

type c13Kind struct {
	T    *decl.Type
	Vals []string
	// Cli, when set, gives the command-line text equivalent to each INI text (map values may be quoted in INI syntax only)
	Cli []string
}

var c13Kinds = []c13Kind{
	{decl.TString, []string{"v1", `"q z"`, "a=b"}, nil},
	{decl.TString, []string{"a #b", "x ; y", "80 #1"}, nil}, // what follows a blank and a # or ; belongs to the value
	{decl.TInt, []string{"5", "-7", "12"}, nil},
	{decl.TBool, []string{"true", "", "true"}, nil},
	{decl.TBools, []string{"true", "", "true"}, nil},
	{decl.TStrings, []string{"a", "b=c", `"q z"`}, nil},
	{decl.TInts, []string{"1", "-2", "3"}, nil},
	{decl.TMapSS, []string{"k:v", "k:w:z", "j:1"}, nil},
	{decl.TMapSS, []string{`k:say:"hi"`, `j:{"a":"b"}`, `k:a":"b`}, nil},
	{decl.TString, []string{"s" + strings.Repeat("x", 70000), "t", "u"}, nil},
	{decl.TMapSI, []string{"k:1", "k:2", "j:-3"}, nil},
	{decl.TMapSS, []string{`k:"v w"`, `k:"http://h:80/x"`, `j:"a:b:c"`}, []string{"k:v w", "k:http://h:80/x", "j:a:b:c"}},
	{decl.TMapSI, []string{`k:"1"`, "k:2", `j:"-3"`}, []string{"k:1", "k:2", "j:-3"}},
	{decl.TFloat64, []string{"2.5", "-1e3", "0"}, nil},
	{decl.TDuration, []string{"1h2m", "-3s", "5ms"}, nil},
	{decl.TPInt, []string{"5", "-7", "0"}, nil},
	{decl.TUpper, []string{"val", "x", "y"}, nil},
	{decl.TUint8, []string{"200", "7", "0"}, nil},
}

var c13Cache = map[int]*decl.Decl{}

// crossing names: one name means a different thing under each of the four namings
func c13Decl(k int) *decl.Decl {
	if d := c13Cache[k]; d != nil {
		return d
	}
	t := c13Kinds[k].T
	o := func(field, long, short, ini string) *decl.Opt {
		return &decl.Opt{Field: field, Long: long, Short: short, IniName: ini, Type: t}
	}
	top := &decl.Cmd{Name: "app", SubOptional: true}
	top.Opts = []*decl.Opt{
		o("Aa", "bb", "c", ""),
		o("Bb", "cc", "a", "AA"),
		o("Cc", "aa", "b", ""),
		o("Ss", "", "s", ""),
		o("Ll", "longonly", "", ""),
		// true crossings: one text is X's field name and Y's long name; a field name and a short name; a long name and a short name
		o("Xx", "Yy", "", ""),
		o("Yy", "Xx", "", ""),
		o("Kk2", "kk2", "K", ""),
		o("K", "kk", "", ""),
		o("Mm2", "mm2", "m", ""),
		o("Mm", "m", "", ""),
		// ... and the other way round: the long name is declared first, the short name after it (the long name still wins)
		o("Qq1", "q", "", ""),
		o("Qq2", "qq2", "q", ""),
	}
	noini := o("Dd", "dd", "", "")
	noini.NoIni = "yes"
	top.Opts = append(top.Opts, noini)
	top.Groups = []*decl.Group{{Field: "Grp", Name: "Grp", Namespace: "ns", Opts: []*decl.Opt{o("Aa", "aa", "", ""), o("Ee", "ee", "e", ""),
		o("Nn", "nn", "", "Ll")}, // its ini-name is the field name of an option of the parser's own group: before any header, the ini-name wins
		// a namespaced group inside the namespaced group: its option's long name carries both prefixes whichever section addresses it
		Groups: []*decl.Group{{Field: "Inner", Name: "Inner", Namespace: "in", Opts: []*decl.Opt{o("Jj", "jj", "", "")}},
			// ... and a plain one: its option's long name carries the outer namespace only
			{Field: "Plain", Name: "Plain", Opts: []*decl.Opt{o("Pp", "pp", "", "")}}}}}
	sub := &decl.Cmd{Field: "Sub", Name: "sub", Opts: []*decl.Opt{o("Aa", "zz", "", ""), o("Ff", "ff", "", "")}}
	cmd := &decl.Cmd{Field: "Cmd", Name: "cmd", SubOptional: true, Cmds: []*decl.Cmd{sub},
		Opts:   []*decl.Opt{o("Aa", "aa", "", ""), o("Gg", "bb", "", "")},
		Groups: []*decl.Group{{Field: "SG", Name: "Sub Group", Opts: []*decl.Opt{o("Hh", "hh", "", "hname")}}}}
	mixed := &decl.Cmd{Field: "Mixed", Name: "MixedCase", Opts: []*decl.Opt{o("Aa", "mx", "", "")},
		Groups: []*decl.Group{{Field: "MG", Name: "Mixed Group", Opts: []*decl.Opt{o("Ii", "ii", "", "")}}}}
	top.Cmds = []*decl.Cmd{cmd, mixed}
	d := (&decl.Decl{Top: top}).Finish()
	c13Cache[k] = d
	return d
}

var c13Sections = []string{"", "Application Options", "application OPTIONS", "Grp", "GRP", "cmd", "cmd.Sub Group", "cmd.sub group", "cmd.sub", "Cmd", "cmd.nope", "sub", "Sub Group", "MixedCase", "mixedcase", "MixedCase.Mixed Group", "MixedCase.mixed group", "Inner", "cmd.", ".cmd", "Plain", " Grp "}
var c13Names = []string{"Aa", "aa", "AA", "aA", "Bb", "bb", "BB", "Cc", "cc", "a", "b", "c", "A", "s", "Ss", "longonly", "Ll", "Dd", "dd", "ns.aa", "ns.ee", "ee", "e", "Ee", "Gg", "zz", "Ff", "ff", "Hh", "hh", "hname", "HNAME", "nope", "Xx", "Yy", "K", "m", "kk", "xx", "Ii", "mx", "ns.in.jj", "in.jj", "jj", "Jj", "Nn", "ll", "ns.pp", "pp", "Pp", "q"}

func init() {
	body := func(c *explore.Ctx) {
		k := c.Choose(len(c13Kinds))
		si := c.Choose(len(c13Sections))
		ni := c.Choose(len(c13Names))
		reps := 1 + c.Choose(3)
		asDefaults := c.Bool()
		earlier := c.Choose(2) == 1 // the same parser has read an INI file before, in which the option was named by another of its names
		if si == 0 && ni == 0 && reps == 1 && !asDefaults && !earlier {
			c13LateGroup(c, k)
			c13Renamed(c, k)
			c13TwoSections(c, k)
			c13AddedOptions(c, k)
		}
		kind := c13Kinds[k]
		d := c13Decl(k)
		section, name := c13Sections[si], c13Names[ni]
		// repeated entries of one option may also sit in two sections that both reach it: the first before any header, the
		// others under [Application Options] (they accumulate like repeated flags all the same)
		split := section == "Application Options" && reps >= 2 && !earlier && c.Bool()
		var ini strings.Builder
		if section != "" && !split {
			fmt.Fprintf(&ini, "[%s]\n", section)
		}
		var vals []string
		for i := 0; i < reps; i++ {
			vals = append(vals, kind.Vals[i])
			fmt.Fprintf(&ini, "%s = %s\n", name, kind.Vals[i])
			if split && i == 0 {
				fmt.Fprintf(&ini, "[%s]\n", section)
			}
		}
		text := ini.String()
		warmIni := ""
		var sharedIP *flags.IniParser // the earlier read and the read under test go through one IniParser (a program that keeps it) or through two
		c.Describe(func() interface{} {
			return map[string]interface{}{"type": kind.T.Name, "ini": text, "as_defaults": asDefaults, "earlier_read_on_same_parser": warmIni, "both_reads_through_one_IniParser": sharedIP != nil}
		})
		// model: which option does the entry select?
		cands, known := ref.SectionOptions(d, strings.TrimSpace(section), "Application Options")
		var sel *decl.Opt
		if known {
			sel = ref.ResolveIniName(cands, name)
		}
		if split {
			if c0, ok := ref.SectionOptions(d, "", "Application Options"); !ok || sel == nil || ref.ResolveIniName(c0, name) != sel {
				c.Skip() // the name does not mean the same option in both sections
			}
			c.Hit("entries-in-two-sections")
		}
		// real: read the INI text
		b1 := d.BuildTags()
		if b1.Err != nil {
			c.Fail("setup-error", b1.Err.Error())
			return
		}
		var warmArgv []string
		if earlier {
			if sel == nil || asDefaults {
				c.Skip()
			}
			if c.Bool() {
				sharedIP = flags.NewIniParser(b1.Parser)
				c.Hit("one-IniParser-for-both-reads")
			}
			// another name of the selected option, in its own section
			other := ""
			for _, cand := range []string{sel.Field, sel.LongNS, sel.Short, sel.IniName} {
				if cand != "" && !strings.EqualFold(cand, name) {
					if cs, ok := ref.SectionOptions(d, strings.TrimSpace(section), "Application Options"); ok && ref.ResolveIniName(cs, cand) == sel {
						other = cand
						break
					}
				}
			}
			if other == "" {
				c.Skip()
			}
			w0 := kind.Vals[len(kind.Vals)-1]
			if section != "" {
				warmIni = "[" + section + "]\n"
			}
			warmIni += other + " = " + w0 + "\n"
			cw := w0
			if kind.Cli != nil {
				cw = kind.Cli[len(kind.Cli)-1]
			}
			for cc := sel.Owner; cc != nil && cc.Parent != nil; cc = cc.Parent {
				warmArgv = append([]string{cc.Name}, warmArgv...)
			}
			switch {
			case kind.T.IsFlag() && sel.LongNS != "":
				warmArgv = append(warmArgv, "--"+sel.LongNS)
			case kind.T.IsFlag():
				warmArgv = append(warmArgv, "-"+sel.Short)
			case sel.LongNS != "":
				warmArgv = append(warmArgv, "--"+sel.LongNS+"="+cw)
			default:
				warmArgv = append(warmArgv, "-"+sel.Short+"="+cw)
			}
			wip := sharedIP
			if wip == nil {
				wip = flags.NewIniParser(b1.Parser)
			}
			if err := wip.Parse(bytes.NewReader([]byte(warmIni))); err != nil {
				c.Fail("earlier-read-rejected", fmt.Sprint(warmIni, err))
				return
			}
			c.Hit("earlier-read")
		}
		var err1 error
		func() {
			defer func() {
				if r := recover(); r != nil {
					c.Fail("panic|"+explore.PanicSite(), fmt.Sprint(r))
				}
			}()
			ip := sharedIP
			if ip == nil {
				ip = flags.NewIniParser(b1.Parser)
			}
			ip.ParseAsDefaults = asDefaults
			err1 = ip.Parse(bytes.NewReader([]byte(text)))
		}()
		if c.Failed() {
			return
		}
		touched := func(b *decl.Built) []string {
			var out []string
			for _, o := range d.EveryOpt() {
				if !ref.SameValue(ref.Empty(o.Type.RT), b.Vals[o]) {
					out = append(out, o.ID+"="+ref.Show(b.Vals[o]))
				}
			}
			return out
		}
		c.Outcome(kind.T.Name, section, name, fmt.Sprint(reps), errType2(err1), strings.Join(touched(b1), ";"))
		if sel == nil {
			c.Hit("no-such-option-or-section")
			if err1 == nil {
				c.Fail("entry-for-no-option-accepted|"+c13NameClass(name), map[string]interface{}{"touched": touched(b1)})
			}
			return
		}
		c.Hit("selected-by:" + c13How(sel, name))
		if err1 != nil {
			c.Fail("valid-entry-rejected|"+c13How(sel, name), fmt.Sprint(err1))
			return
		}
		// differential: the same declaration given the equivalent flags
		var argv []string
		for cc := sel.Owner; cc != nil && cc.Parent != nil; cc = cc.Parent {
			argv = append([]string{cc.Name}, argv...)
		}
		for vi, v := range vals {
			if kind.Cli != nil {
				v = kind.Cli[vi]
			}
			switch {
			case kind.T.IsFlag() && sel.LongNS != "":
				argv = append(argv, "--"+sel.LongNS)
			case kind.T.IsFlag():
				argv = append(argv, "-"+sel.Short)
			case sel.LongNS != "":
				argv = append(argv, "--"+sel.LongNS+"="+v)
			default:
				argv = append(argv, "-"+sel.Short+"="+v)
			}
		}
		b2 := d.BuildTags()
		if earlier {
			if wr := runParser(b2, &ref.Config{D: d}, warmArgv, runOpts{}); wr.Err != nil || wr.Panic != nil {
				c.Fail("harness-equivalent-flags-rejected", fmt.Sprint(warmArgv, wr.Err, wr.Panic))
				return
			}
		}
		rr := runParser(b2, &ref.Config{D: d}, argv, runOpts{})
		if rr.Panic != nil || rr.Err != nil {
			c.Fail("harness-equivalent-flags-rejected", fmt.Sprint(argv, rr.Err, rr.Panic))
			return
		}
		t1, t2 := strings.Join(touched(b1), ";"), strings.Join(touched(b2), ";")
		if reps > 1 {
			c.Hit("repeated")
		}
		if asDefaults {
			c.Hit("as-defaults")
		}
		if t1 != t2 {
			sig := "differs-from-flag|" + c13How(sel, name)
			if !ref.SameValue(b1.Vals[sel], b2.Vals[sel]) && ref.SameValue(ref.Empty(sel.Type.RT), b1.Vals[sel]) {
				sig = "selects-other-option|" + c13How(sel, name)
			} else if !ref.SameValue(b1.Vals[sel], b2.Vals[sel]) {
				sig = fmt.Sprintf("stores-other-value|%s|reps=%d|defaults=%v", kind.T.Name, reps, asDefaults)
			}
			c.Fail(sig, map[string]interface{}{"after_ini": t1, "after_flags": t2, "flags": argv})
		}
	}
	explore.Register(&explore.Check{
		ID:         "C13",
		Level:      "exploration",
		ShardDepth: 2,
		Body:       body,
		Rule: "declaration whose names cross (A's long name = B's field name = C's ini-name up to case; the same field name in the parser, a namespaced group, a command and a sub-subcommand; short-only, long-only and no-ini options; an ini-name inside a command's subgroup) " +
			"x 17 option types / value notations (incl. map values containing :\" in the middle, a 70000-byte value) (incl. map values written in INI quoting, some containing colons, against their unquoted command-line equivalent) x 22 section spellings (incl. a header with blanks inside the brackets) (incl. a command path with an empty component) (incl. a namespaced group nested in a namespaced group, addressed by its own section) (incl. a command whose name has upper-case letters: command names are matched exactly, group descriptions case-insensitively) (global, group description in three casings, command, command.group in two casings, sub-subcommand path, wrong casings and unknown paths) x 51 entry names (every naming of every option in several casings, namespaced long names, unknown) " +
			"x 1..3 repeated entries (also spread over two sections that reach the same option) x normal / as-defaults mode x {fresh parser, parser that has already read a file naming the same option by another of its names (a later read replaces, like a later command line)}; oracle: (a) the documented priority ini-name > field > namespaced long > short selects the option, unknown names/sections are errors, (b) differential: a fresh parser given the equivalent --name=value flags must end in the same option struct; " +
			"distinct = distinct (type, section, name, repetitions, error class, options touched)",
		Assumptions:  []string{"values without edge blanks", "a flag entry 'name = false' has no command-line equivalent and is not used"},
		RequiredHits: []string{"selected-by:ini-name", "selected-by:field", "selected-by:long", "selected-by:short", "no-such-option-or-section", "repeated", "as-defaults", "earlier-read", "one-IniParser-for-both-reads", "options-added-with-AddOption"},
		Bound:        [2]string{"complete product", "complete product"},
		BudgetS:      [2]int{170, 600},
	})
}

func c13How(o *decl.Opt, name string) string {
	switch {
	case o.IniName != "" && strings.EqualFold(o.IniName, name):
		return "ini-name"
	case o.Field == name:
		return "field"
	case o.LongNS == name:
		return "long"
	}
	return "short"
}

func c13NameClass(name string) string {
	if name == "" {
		return "empty"
	}
	return "named"
}

// c13LateGroup: sections are looked up in the parser as it is now. After a first read, a group is added below an existing
// group with (*Group).AddGroup; a second read on the same parser must find it by its description like any other.
func c13LateGroup(c *explore.Ctx, k int) {
	d := c13Decl(k)
	b := d.BuildTags()
	if b.Err != nil {
		return
	}
	if err := flags.NewIniParser(b.Parser).Parse(strings.NewReader("[Grp]\n[cmd.Sub Group]\n")); err != nil {
		c.Fail("late-group|first-read-rejected", err.Error())
		return
	}
	type lateOpts struct {
		Zz string `long:"zz"`
	}
	where := []string{"Grp", "Application Options"}[k%2]
	g := b.Parser.Command.Group.Find(where)
	if g == nil {
		c.Fail("late-group|harness", "group not found: "+where)
		return
	}
	data := &lateOpts{}
	if _, err := g.AddGroup("Late Group", "", data); err != nil {
		c.Fail("late-group|AddGroup-rejected", err.Error())
		return
	}
	err := flags.NewIniParser(b.Parser).Parse(strings.NewReader("[Late Group]\nZz = v\n"))
	c.Hit("group-added-between-two-reads")
	if err != nil {
		c.Fail("section-of-a-group-added-after-a-first-read-not-found", map[string]interface{}{"added_below": where, "error": err.Error()})
	} else if data.Zz != "v" {
		c.Fail("section-of-a-group-added-after-a-first-read-not-applied", map[string]interface{}{"added_below": where, "value": data.Zz})
	}
}

// c13Renamed: a section is matched against the group's description as it is when the file is read.
func c13Renamed(c *explore.Ctx, k int) {
	d := c13Decl(k)
	b := d.BuildTags()
	if b.Err != nil {
		return
	}
	g := b.Parser.Command.Group.Find("Grp")
	if g == nil {
		c.Fail("renamed-group|harness", "group Grp not found")
		return
	}
	g.ShortDescription = "Renamed Options"
	errNew := flags.NewIniParser(b.Parser).Parse(strings.NewReader("[renamed options]\n"))
	errOld := flags.NewIniParser(b.Parser).Parse(strings.NewReader("[Grp]\n"))
	c.Hit("group-renamed")
	if errNew != nil {
		c.Fail("section-of-a-renamed-group-not-found", errNew.Error())
	}
	if errOld == nil {
		c.Fail("section-by-the-former-name-of-a-group-accepted", "[Grp] after the group was renamed")
	}
}

// c13TwoSections: one key spelling in two sections of one file that denote different options: each entry goes to the
// option its own section reaches.
func c13TwoSections(c *explore.Ctx, k int) {
	d := c13Decl(k)
	kind := c13Kinds[k]
	if kind.T.IsFlag() || kind.T.IsMap() || kind.Cli != nil {
		return
	}
	b := d.BuildTags()
	if b.Err != nil {
		return
	}
	v1, v2 := kind.Vals[0], kind.Vals[1]
	text := fmt.Sprintf("[cmd]\nAa = %s\n[MixedCase]\nAa = %s\n", v1, v2)
	err := flags.NewIniParser(b.Parser).Parse(strings.NewReader(text))
	c.Hit("same-key-in-two-sections")
	if err != nil {
		c.Fail("valid-entry-rejected|two-sections", err.Error())
		return
	}
	b2 := d.BuildTags()
	rr1 := runParser(b2, &ref.Config{D: d}, []string{"cmd", "--aa=" + v1}, runOpts{})
	b3 := d.BuildTags()
	rr2 := runParser(b3, &ref.Config{D: d}, []string{"MixedCase", "--mx=" + v2}, runOpts{})
	if rr1.Err != nil || rr2.Err != nil {
		return
	}
	for _, o := range d.EveryOpt() {
		want := b2.Vals[o]
		if o.Owner != nil && o.Owner.Name == "MixedCase" {
			want = b3.Vals[o]
		}
		if !ref.SameValue(want, b.Vals[o]) {
			c.Fail("differs-from-flag|same-key-in-two-sections", map[string]interface{}{"option": o.ID, "want": ref.Show(want), "got": ref.Show(b.Vals[o]), "ini": text})
			return
		}
	}
}

// c13AddedOptions: options handed over with (*Group).AddOption - one to the parser's own top group (the group that holds
// "Application Options"), one to a group of the declaration - are options of the parser like any other: an entry before any
// section header reaches both, and the entry means what the flag means.
func c13AddedOptions(c *explore.Ctx, k int) {
	d := c13Decl(k)
	build := func() (*decl.Built, *string, *[]int) {
		b := d.BuildTags()
		if b.Err != nil {
			return nil, nil, nil
		}
		root, nested := new(string), new([]int)
		b.Parser.Command.Group.AddOption(&flags.Option{LongName: "rootadded", ShortName: 'R'}, root)
		if g := b.Parser.Command.Group.Find("Application Options"); g != nil {
			g.AddOption(&flags.Option{LongName: "nestedadded"}, nested)
		}
		return b, root, nested
	}
	b1, r1, n1 := build()
	b2, r2, n2 := build()
	if b1 == nil || b2 == nil {
		return
	}
	c.Hit("options-added-with-AddOption")
	names := [][2]string{{"rootadded", "nestedadded"}, {"R", "nestedadded"}}[k%2]
	text := names[0] + " = rv\n" + names[1] + " = 4\n" + names[1] + " = 5\n"
	var err1 error
	func() {
		defer func() {
			if r := recover(); r != nil {
				c.Fail("panic|"+explore.PanicSite(), fmt.Sprint(r))
			}
		}()
		err1 = flags.NewIniParser(b1.Parser).Parse(strings.NewReader(text))
	}()
	if c.Failed() {
		return
	}
	if _, err := b2.Parser.ParseArgs([]string{"--rootadded=rv", "--nestedadded=4", "--nestedadded=5"}); err != nil {
		c.Fail("harness-equivalent-flags-rejected", err.Error())
		return
	}
	if err1 != nil {
		c.Fail("valid-entry-rejected|added-option", map[string]interface{}{"ini": text, "error": err1.Error()})
		return
	}
	if *r1 != *r2 || fmt.Sprint(*n1) != fmt.Sprint(*n2) {
		c.Fail("differs-from-flag|added-option", map[string]interface{}{"ini": text, "after_ini": fmt.Sprint(*r1, *n1), "after_flags": fmt.Sprint(*r2, *n2)})
	}
}
