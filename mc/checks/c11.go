package checks

import (
	"bytes"
	"fmt"
	"math/big"
	"os"
	"reflect"
	"strconv"
	"strings"

	flags "github.com/jessevdk/go-flags"

	"verif/mc/decl"
	"verif/mc/explore"
	"verif/mc/ref"
)

// C11 — values are converted exactly or rejected.

type c11Decl struct {
	d   *decl.Decl
	opt *decl.Opt
	pos *decl.PosArg
}

var c11Cache = map[string]*c11Decl{}

var c11IgnoreUnknown bool // set per leaf before c11Get: the parser additionally carries IgnoreUnknown (a value fault of a known option is not an unknown option)

func c11Get(t *decl.Type, base int, choices []string) *c11Decl {
	key := fmt.Sprintf("%s/%d/%s/%v", t.Name, base, strings.Join(choices, ","), c11IgnoreUnknown)
	if cd := c11Cache[key]; cd != nil {
		return cd
	}
	o := &decl.Opt{Field: "Val", Long: "val", Short: "V", Type: t, Choices: choices, Env: "C11_VAL"}
	if base != 10 {
		o.Base = strconv.Itoa(base)
	}
	top := &decl.Cmd{Name: "app", Opts: []*decl.Opt{o, {Field: "Other", Long: "other", Type: decl.TString}}}
	cd := &c11Decl{opt: o}
	if !t.IsMap() && !t.IsFunc() {
		pt := t
		cd.pos = &decl.PosArg{Field: "P", Type: pt}
		top.Pos = []*decl.PosArg{cd.pos}
	}
	opts := flags.Options(flags.PassDoubleDash)
	if c11IgnoreUnknown {
		opts |= flags.IgnoreUnknown
	}
	cd.d = (&decl.Decl{Top: top, Options: opts}).Finish()
	c11Cache[key] = cd
	return cd
}

const (
	c11PathInline = iota
	c11PathSeparate
	c11PathDefault
	c11PathEnv
	c11PathPositional
	c11PathIni
	c11NPaths
)

var c11PathNames = []string{"--val=V", "--val V", "default tag", "environment", "positional", "ini entry"}

// c11Run feeds text to the option through one path and returns (accepted, value, error).
var c11HelpFirst bool // per leaf: WriteHelp is called on the parser before the value is given

var c11EditedChoices []string // per leaf: the option was declared with these choices, used once, and then given cd's choices through Option.Choices

var c11TagChoices []string // per leaf: the struct tag declares these choices; the program assigns cd's choices to Option.Choices before the first use

var c11RejectedFirst bool // per leaf: the same parser has been given a value outside the choices before (and has rejected it)

func c11Run(cd *c11Decl, path int, text string) (bool, reflect.Value, error, bool) {
	oracle := cd
	if c11TagChoices != nil {
		cd = c11Get(cd.opt.Type, 10, c11TagChoices)
	}
	b := cd.d.BuildTags()
	if b.Err != nil {
		return false, reflect.Value{}, b.Err, true
	}
	p := b.Parser
	if c11TagChoices != nil {
		p.FindOptionByLongName("val").Choices = append([]string(nil), oracle.opt.Choices...)
	}
	if c11RejectedFirst {
		_, err := p.ParseArgs([]string{"--val=certainly-not-a-choice"})
		if fe, ok := err.(*flags.Error); !ok || fe.Type != flags.ErrInvalidChoice {
			return false, reflect.Value{}, fmt.Errorf("earlier parse with a value outside the choices: %v", err), true
		}
		b.Vals[cd.opt].Set(reflect.Zero(b.Vals[cd.opt].Type()))
	}
	if c11EditedChoices != nil {
		o := p.FindOptionByLongName("val")
		final := o.Choices
		o.Choices = c11EditedChoices
		if _, err := p.ParseArgs([]string{"--val=" + c11EditedChoices[0]}); err != nil {
			return false, reflect.Value{}, err, true
		}
		o.Choices = final
		b.Vals[cd.opt].Set(reflect.Zero(b.Vals[cd.opt].Type()))
	}
	if c11HelpFirst {
		var sink bytes.Buffer
		p.WriteHelp(&sink)
	}
	var err error
	val := b.Vals[cd.opt]
	switch path {
	case c11PathInline:
		_, err = p.ParseArgs([]string{"--val=" + text})
	case c11PathSeparate:
		_, err = p.ParseArgs([]string{"--val", text})
	case c11PathDefault:
		p.FindOptionByLongName("val").Default = []string{text}
		_, err = p.ParseArgs(nil)
	case c11PathEnv:
		os.Setenv("C11_VAL", text)
		_, err = p.ParseArgs(nil)
		os.Unsetenv("C11_VAL")
	case c11PathPositional:
		_, err = p.ParseArgs([]string{"--", text})
		val = b.PosVals[cd.pos]
	case c11PathIni:
		err = flags.NewIniParser(p).Parse(bytes.NewReader([]byte("[Application Options]\nVal = " + text + "\n")))
	}
	return err == nil, val, err, false
}

// pathAdmits says whether text can be carried unchanged by the path (so that the conversion is what is tested).
func c11PathAdmits(cd *c11Decl, path int, text string) bool {
	switch path {
	case c11PathInline:
		return !strings.HasPrefix(text, `"`)
	case c11PathSeparate:
		if strings.HasPrefix(text, `"`) {
			return false
		}
		return !ref.IsOptionToken(text) && text != "--"
	case c11PathDefault:
		return !cd.opt.Type.IsFlag()
	case c11PathEnv:
		return !strings.Contains(text, "\x00")
	case c11PathPositional:
		return cd.pos != nil
	case c11PathIni:
		if cd.opt.Type.IsMap() {
			return false
		}
		return text == strings.TrimSpace(text) && text != "" && !strings.HasPrefix(text, `"`) && !strings.ContainsAny(text, "\r\n")
	}
	return false
}

func c11Check(c *explore.Ctx, cd *c11Decl, path int, text string, part string) {
	if !c11PathAdmits(cd, path, text) {
		c.Skip()
	}
	t := cd.opt.Type
	base := cd.opt.BaseN()
	if path == c11PathPositional {
		base = 10 // positional fields of this declaration carry no base tag
		if cd.opt.Base != "" {
			c.Skip()
		}
	}
	c.Describe(func() interface{} {
		return map[string]interface{}{"part": part, "type": t.Name, "base": base, "path": c11PathNames[path], "text": text, "choices": cd.opt.Choices, "ignore_unknown": cd.d.Options&flags.IgnoreUnknown != 0}
	})
	// reference verdict
	var want reflect.Value
	class := ref.MustAccept
	hasWant := true
	chosen := true
	if len(cd.opt.Choices) > 0 && path != c11PathPositional {
		chosen = false
		for _, ch := range cd.opt.Choices {
			if ch == text {
				chosen = true
			}
		}
	}
	nv, aerr := ref.Apply(ref.Empty(t.RT), base, text)
	switch aerr {
	case nil:
		want = nv
	case ref.ErrReject:
		class, hasWant = ref.MustReject, false
	default:
		class, hasWant = ref.Grey, false
		// grey with a known value if accepted
		if !t.IsMulti() {
			if v := ref.ConvScalar(t.RT, base, text); v.HasValue {
				want, hasWant = v.Value, true
			}
		}
	}
	ok, got, err, setupErr := c11Run(cd, path, text)
	if setupErr {
		c.Fail("setup-error", fmt.Sprint(err))
		return
	}
	c.Outcome(t.Name, fmt.Sprint(base), class.String(), fmt.Sprint(ok), ref.Show(got))
	kind := t.Name
	if !chosen {
		c.Hit("not-a-choice")
		fe, isFE := err.(*flags.Error)
		if ok {
			c.Fail("value-outside-choices-accepted|"+c11PathNames[path], map[string]interface{}{"stored": ref.Show(got)})
			return
		}
		if path == c11PathIni {
			return // INI wraps errors in IniError (C14's subject)
		}
		if !isFE || fe.Type != flags.ErrInvalidChoice {
			c.Fail("not-a-choice-wrong-error|"+errType(err), fmt.Sprint(err))
			return
		}
		for _, ch := range cd.opt.Choices {
			if !strings.Contains(fe.Message, ch) {
				c.Fail("invalid-choice-message-omits-allowed-value", map[string]interface{}{"message": fe.Message, "omitted": ch})
				return
			}
		}
		return
	}
	switch class {
	case ref.MustAccept:
		c.Hit("must-accept")
		if !ok {
			c.Fail("valid-value-rejected|"+kind+"|"+c11PathNames[path], map[string]interface{}{"error": fmt.Sprint(err), "denotes": ref.Show(want)})
			return
		}
		if !ref.SameValue(want, got) {
			c.Fail("inexact-value|"+kind+"|"+c11PathNames[path], map[string]interface{}{"want": ref.Show(want), "got": ref.Show(got)})
		}
	case ref.MustReject:
		c.Hit("must-reject")
		if ok {
			c.Fail("invalid-value-accepted|"+kind+"|"+c11PathNames[path], map[string]interface{}{"stored": ref.Show(got)})
			return
		}
		if path == c11PathPositional || path == c11PathIni {
			return // positional conversion errors are foreign by design; INI errors are IniError
		}
		fe, isFE := err.(*flags.Error)
		if !isFE || fe.Type != flags.ErrMarshal {
			c.Fail("rejection-not-ErrMarshal|"+errType(err)+"|"+c11PathNames[path], fmt.Sprint(err))
			return
		}
		if !strings.Contains(fe.Message, "--val") && !strings.Contains(fe.Message, "-V") {
			c.Fail("ErrMarshal-does-not-identify-option", fe.Message)
		}
	default:
		c.Hit("grey")
		if ok && hasWant && !ref.SameValue(want, got) {
			c.Fail("inexact-value-grey|"+kind+"|"+c11PathNames[path], map[string]interface{}{"want": ref.Show(want), "got": ref.Show(got)})
		}
	}
}

var c11SmallInts = []*decl.Type{decl.TInt8, decl.TUint8, decl.TInt16, decl.TUint16}
var c11BigInts = []*decl.Type{decl.TInt, decl.TInt32, decl.TInt64, decl.TUint, decl.TUint32, decl.TUint64, decl.TInt16, decl.TUint16}
var c11StrTypes = []*decl.Type{decl.TInt8, decl.TUint8, decl.TInt64, decl.TUint64, decl.TFloat32, decl.TFloat64, decl.TDuration, decl.TMapSI, decl.TPInt, decl.TUint8s, decl.TUpper, decl.TMapSB, decl.TBool}
var c11Alpha = []string{"0", "1", "9", "a", "f", "z", "-", "+", ".", "e", "x", "_", " ", "I", "n", ":"}
var c11Floats = []string{
	"1.00000005960464477539063", "1.00000005960464477539062", "1.000000059604644775390625", "0.1", "16777217", "16777216.5", "3.4028234663852886e38", "3.4028235677973366e38", "3.4028236e38",
	"1e39", "-1e39", "1e400", "-1e400", "1.7976931348623157e308", "1.7976931348623159e308", "1.8e308", "4.9e-324", "2.4e-324", "2.5e-324", "1e-400", "-1e-400", "1.401298464324817e-45", "7e-46", "0.7e-45",
	"0x1p-2", "0x1.8p1", "inf", "-inf", "+Inf", "Infinity", "nan", "NaN", "+nan", "1_000", "1e", "e1", ".", "-.", "+.5", "5.", ".5e1", "1E2", "1e+2", "1e-2", "00.10", " 1", "1 ", "--1", "1f", "1d", "0b1", "0o7",
	"9007199254740993", "9007199254740992.5", "123456789012345678901234567890", "0.000000000000000000000000000000000000000000001",
}

func c11Bounds(t *decl.Type) []*big.Int {
	bits := uint(t.RT.Bits())
	one := big.NewInt(1)
	var min, max *big.Int
	switch t.RT.Kind() {
	case reflect.Int, reflect.Int8, reflect.Int16, reflect.Int32, reflect.Int64:
		max = new(big.Int).Sub(new(big.Int).Lsh(one, bits-1), one)
		min = new(big.Int).Neg(new(big.Int).Lsh(one, bits-1))
	default:
		min = big.NewInt(0)
		max = new(big.Int).Sub(new(big.Int).Lsh(one, bits), one)
	}
	add := func(x *big.Int, d int64) *big.Int { return new(big.Int).Add(x, big.NewInt(d)) }
	return []*big.Int{add(min, -1), min, add(min, 1), big.NewInt(-1), big.NewInt(0), big.NewInt(1), add(max, -1), max, add(max, 1),
		new(big.Int).Lsh(one, 64), new(big.Int).Lsh(one, 128), new(big.Int).Neg(new(big.Int).Lsh(one, 63)), add(new(big.Int).Neg(new(big.Int).Lsh(one, 63)), -1)}
}

func init() {
	body := func(c *explore.Ctx) {
		part := c.Choose(8)
		c11IgnoreUnknown = part != 0 && part != 2 && part != 5 && part != 6 && part != 7 && c.Bool()
		switch part {
		case 7: // a callback option with choices: the choices restrict what the callback is given
			text := []string{"cb1", "cb2", "cb", "cb1x", "CB1", "", "zzz"}[c.Choose(7)]
			form := c.Choose(2)
			var o struct {
				Val func(string) `long:"val" short:"V" choice:"cb1" choice:"cb2"`
			}
			var got []string
			o.Val = func(s string) { got = append(got, s) }
			p := flags.NewParser(&o, flags.None)
			argv := []string{"--val=" + text}
			if form == 1 {
				argv = []string{"-V", text}
				if text == "" {
					c.Skip()
				}
			}
			c.Describe(func() interface{} {
				return map[string]interface{}{"part": "callback-with-choices", "argv": argv}
			})
			var err error
			func() {
				defer func() {
					if r := recover(); r != nil {
						c.Fail("panic|"+explore.PanicSite(), fmt.Sprint(r))
					}
				}()
				_, err = p.ParseArgs(argv)
			}()
			if c.Failed() {
				return
			}
			member := text == "cb1" || text == "cb2"
			c.Outcome("callback-with-choices", text, errType(err), fmt.Sprint(got))
			if member {
				c.Hit("must-accept")
				if err != nil || len(got) != 1 || got[0] != text {
					c.Fail("valid-value-rejected|func(string)|choices", map[string]interface{}{"error": fmt.Sprint(err), "calls": got})
				}
			} else {
				c.Hit("not-a-choice")
				if fe, ok := err.(*flags.Error); !ok || fe.Type != flags.ErrInvalidChoice {
					c.Fail("value-outside-choices-accepted|func(string)", map[string]interface{}{"error": fmt.Sprint(err), "calls": got})
				} else if len(got) != 0 {
					c.Fail("callback-called-with-a-value-outside-its-choices", got)
				}
			}
		case 6: // an INI value is everything after the '=' (trimmed): what looks like a trailing comment belongs to it
			t := []*decl.Type{decl.TUint16, decl.TString, decl.TInt}[c.Choose(3)]
			text := []string{"80 #1", "80 ;1", "a #b", "a ; b", "80#1", "8;0", "80 # 8080"}[c.Choose(7)]
			c11Check(c, c11Get(t, 10, nil), c11PathIni, text, "ini-comment-like-values")
		case 5: // a list in an environment variable, split on env-delim: every piece is a value of the element type
			types := []*decl.Type{decl.TInts, decl.TStrings, decl.TMapSI, decl.TUint8s}
			t := types[c.Choose(len(types))]
			pieces := [][]string{{"1"}, {"1", "2"}, {"1", "", "2"}, {"1", "2", ""}, {"", "1"}, {"", ""}, {"1", "x"}, {"1", " 2"}}[c.Choose(8)]
			delim := []string{",", ";;"}[c.Choose(2)]
			if t == decl.TMapSI {
				for i, p := range pieces {
					if p != "" {
						pieces[i] = "k" + p + ":" + strings.TrimSpace(p)
						if p == "x" {
							pieces[i] = "kx:x"
						}
					}
				}
			}
			text := strings.Join(pieces, delim)
			c.Describe(func() interface{} {
				return map[string]interface{}{"part": "env-delim", "type": t.Name, "env-delim": delim, "variable": text}
			})
			o := &decl.Opt{Field: "Val", Long: "val", Type: t, Env: "C11_LIST", EnvDelim: delim}
			d := (&decl.Decl{Top: &decl.Cmd{Name: "app", Opts: []*decl.Opt{o}}}).Finish()
			b := d.BuildTags()
			if b.Err != nil {
				c.Fail("setup-error", b.Err.Error())
				return
			}
			os.Setenv("C11_LIST", text)
			rr := runParser(b, &ref.Config{D: d}, nil, runOpts{})
			os.Unsetenv("C11_LIST")
			if rr.Panic != nil {
				c.Fail("panic|"+rr.PanicSite, fmt.Sprint(rr.Panic))
				return
			}
			// reference: fold the pieces one by one
			cur := ref.Empty(t.RT)
			var werr error
			for _, p := range pieces {
				nv, err := ref.Apply(cur, 10, p)
				if err != nil {
					werr = err
					break
				}
				cur = nv
			}
			c.Outcome("env-delim", t.Name, fmt.Sprint(werr), errType(rr.Err), ref.Show(b.Vals[o]))
			switch {
			case werr == ref.ErrGrey:
				c.Hit("grey")
			case werr != nil:
				c.Hit("must-reject")
				if rr.Err == nil {
					c.Fail("invalid-value-accepted|"+t.Name+"|environment list", map[string]interface{}{"stored": ref.Show(b.Vals[o])})
				} else if fe, ok := rr.Err.(*flags.Error); !ok || fe.Type != flags.ErrMarshal {
					c.Fail("rejection-not-ErrMarshal|"+errType(rr.Err)+"|environment list", fmt.Sprint(rr.Err))
				}
			default:
				c.Hit("must-accept")
				if rr.Err != nil {
					c.Fail("valid-value-rejected|"+t.Name+"|environment list", fmt.Sprint(rr.Err))
				} else if !ref.SameValue(cur, b.Vals[o]) {
					c.Fail("inexact-value|"+t.Name+"|environment list", map[string]interface{}{"want": ref.Show(cur), "got": ref.Show(b.Vals[o])})
				}
			}
			return
		case 0: // every value of the small integer types in every base
			t := c11SmallInts[c.Choose(len(c11SmallInts))]
			var base int
			base = 2 + c.Choose(35)
			upper := c.Bool()
			bits := uint(t.RT.Bits())
			n := 1 << bits
			idx := c.Choose(n + 4) // all values plus two out-of-range neighbours on each side
			lo := int64(0)
			if t == decl.TInt8 || t == decl.TInt16 {
				lo = -(int64(1) << (bits - 1))
			}
			v := lo - 2 + int64(idx)
			text := big.NewInt(v).Text(base)
			if upper {
				if text == strings.ToUpper(text) {
					c.Skip()
				}
				text = strings.ToUpper(text)
			}
			c11Check(c, c11Get(t, base, nil), c11PathInline, text, "all-values")
		case 1: // limits of the wide types, through every path
			t := c11BigInts[c.Choose(len(c11BigInts))]
			base := []int{10, 2, 8, 16, 36}[c.Choose(5)]
			path := c.Choose(c11NPaths)
			bs := c11Bounds(t)
			v := bs[c.Choose(len(bs))]
			text := v.Text(base)
			if c.Bool() {
				text = "0" + strings.TrimPrefix(text, "-") // leading zero (sign dropped: only meaningful for non-negative numerals)
				if v.Sign() < 0 {
					c.Skip()
				}
			}
			c11Check(c, c11Get(t, base, nil), path, text, "limits")
		case 2: // every short string over the numeric alphabet
			t := c11StrTypes[c.Choose(len(c11StrTypes))]
			base := 10
			if t.RT.Kind() != reflect.Float32 && t.RT.Kind() != reflect.Float64 && t != decl.TDuration && t != decl.TUpper && t != decl.TBool && t != decl.TMapSB {
				base = []int{10, 2, 16, 36, 0}[c.Choose(5)] // 0: the base is inferred from the numeral's prefix, as in Go source
				if base == 0 {
					c.Hit("base-inferred-from-prefix")
				}
			}
			path := c11PathInline
			if c.Thorough {
				path = []int{c11PathInline, c11PathDefault, c11PathPositional}[c.Choose(3)]
			}
			maxLen := 4
			n := c.Choose(maxLen + 1)
			text := ""
			for i := 0; i < n; i++ {
				text += c11Alpha[c.Choose(len(c11Alpha))]
			}
			if t == decl.TBool && path != c11PathPositional {
				c.Skip() // a bool option takes no argument; bool text only arrives as a positional or map value
			}
			c11Check(c, c11Get(t, base, nil), path, text, "short-strings")
		case 3: // float rounding witnesses and special spellings
			t := []*decl.Type{decl.TFloat32, decl.TFloat64}[c.Choose(2)]
			path := c.Choose(c11NPaths)
			text := c11Floats[c.Choose(len(c11Floats))]
			if c.Bool() {
				if strings.HasPrefix(text, "-") || strings.HasPrefix(text, "+") {
					c.Skip()
				}
				text = "-" + text
			}
			c11Check(c, c11Get(t, 10, nil), path, text, "float-witnesses")
		case 4: // choices
			sets := [][]string{{"cat", "dog"}, {"1", "10"}, {"a b", "Cat", "c"}, {"rw,sync", "ro"}, {"c1", "c2", "c3", "c4", "c5", "c6", "c7"}, {"only"}}
			si := c.Choose(len(sets))
			t := decl.TString
			if si == 1 {
				t = decl.TInt
			}
			path := []int{c11PathInline, c11PathSeparate, c11PathDefault, c11PathEnv}[c.Choose(4)]
			c11EditedChoices = nil
			other := [][]string{{"cat", "bird"}, {"10", "2"}, {"c", "zzz"}, {"ro", "x"}, {"c7", "c9"}, {"only", "other"}}[si]
			prior := c.Choose(4)
			if path != c11PathInline && path != c11PathSeparate {
				prior = 0
			}
			switch prior {
			case 1:
				// the same option first carried another choice set (sharing one member) and was used once with it
				c11EditedChoices = other
				defer func() { c11EditedChoices = nil }()
			case 2:
				// the same parser has rejected a value outside the choices before
				c11RejectedFirst = true
				defer func() { c11RejectedFirst = false }()
			case 3:
				// the struct tag declares the other set; the program assigns this one to Option.Choices before the first use
				c11TagChoices = other
				defer func() { c11TagChoices = nil }()
			}
			c.Hit(fmt.Sprintf("choices-prior=%d", prior))
			// the help text is rendered before the value is given (rendering must not touch the declared choices)
			c11HelpFirst = c.Bool()
			defer func() { c11HelpFirst = false }()
			var cands []string
			for _, ch := range sets[si] {
				cands = append(cands, ch, ch[:len(ch)-1], ch+"x", strings.ToUpper(ch), strings.ToLower(ch), " "+ch, ch+" ", "0"+ch, "+"+ch)
			}
			cands = append(cands, "", "zzz", "2", "do", "ca", "bird", "rw", "sync", "...", "c9")
			text := cands[c.Choose(len(cands))]
			c11Check(c, c11Get(t, 10, sets[si]), path, text, "choices")
		}
	}
	explore.Register(&explore.Check{
		ID:         "C11",
		Level:      "exploration",
		ShardDepth: 4,
		Body:       body,
		Rule: "(i) every value of int8/uint8/int16/uint16 plus two out-of-range neighbours on each side, rendered in every base 2..36 in both letter cases; " +
			"(ii) min-1,min,min+1,-1,0,1,max-1,max,max+1,2^64,2^128,-2^63,-2^63-1 for int/int16/int32/int64/uint/uint16/uint32/uint64 in bases 10,2,8,16,36, with and without a leading zero, through 6 paths (--val=V, --val V, default tag, environment, positional, INI entry); " +
			"(iii) every string of length <= 4 over {0 1 9 a f z - + . e x _ space I n :} for 13 types x bases 10,2,16,36 and 0 (inferred from the prefix: 0x, 0b, 0o, a leading 0, underscores) (thorough: also via default tag and positional); (iv) 56 float rounding/limit/spelling witnesses x sign x float32/float64 x 6 paths; " +
			"(v) choice sets (incl. a member containing a comma, a set of seven and a set of one; also: the help text rendered first; also: a value outside the choices rejected by the same parser first; also: another set declared by the tag and this set assigned to Option.Choices by the program before the first use; also: a different set first, one use, then the set edited through Option.Choices) x near-miss values (prefix, suffix, case, padding, leading zero/plus) x 4 paths; (vi) lists in an environment variable split on env-delim {',', ';;'} for []int, []string, map[string]int, []uint8: 8 piece patterns with empty, blank-padded and unconvertible pieces (every piece is a value of the element type: an empty piece is an element of a []string and a fault for a number); (viii) a func(string) option with choices x 7 values x 2 spellings (the callback runs only for members); (vii) INI values that look as if they ended in a comment (80 #1, a ; b ...) for uint16, int, string; (ii), (iv) and (v) also with IgnoreUnknown set on the parser; oracle: own digit parser + math/big (integers), big.Rat nearest-even (floats), three classes must-accept / must-reject / grey; " +
			"distinct = distinct (type, base, class, accepted?, stored value)",
		Assumptions:  []string{"duration syntax is Go's time.ParseDuration (trusted)", "bool spellings other than true/false, a leading '+', inf/nan/hex-float/underscore spellings are grey: acceptance not asserted, exactness is"},
		RequiredHits: []string{"must-accept", "must-reject", "grey", "not-a-choice", "choices-prior=1", "choices-prior=2", "choices-prior=3", "base-inferred-from-prefix"},
		Bound:        [2]string{"strings <= 4 via --val=V; full value range of 8- and 16-bit types in all bases", "strings <= 4 through 3 paths; full value range of 8- and 16-bit types in all bases"},
		BudgetS:      [2]int{170, 1500},
	})
}
