package checks

import (
	"bytes"
	"fmt"
	"os"
	"sort"
	"strings"
	"syscall"
	"unicode/utf8"

	"golang.org/x/sys/unix"

	flags "github.com/jessevdk/go-flags"

	"verif/mc/decl"
	"verif/mc/explore"
)

// C17 — help layout is well-formed for every declaration and width.
//
// The worker's standard input is the slave side of a real pseudo-terminal whose
// width is set on the master before every rendering, so the library's own
// ioctl-based width probe is exercised unmodified.

var c17Master *os.File

func c17Setup(thorough bool, scratch string) error {
	m, err := os.OpenFile("/dev/ptmx", os.O_RDWR|syscall.O_NOCTTY, 0)
	if err != nil {
		return fmt.Errorf("open /dev/ptmx: %v", err)
	}
	if err := unix.IoctlSetPointerInt(int(m.Fd()), unix.TIOCSPTLCK, 0); err != nil {
		return fmt.Errorf("unlock pty: %v", err)
	}
	n, err := unix.IoctlGetInt(int(m.Fd()), unix.TIOCGPTN)
	if err != nil {
		return fmt.Errorf("pty number: %v", err)
	}
	s, err := os.OpenFile(fmt.Sprintf("/dev/pts/%d", n), os.O_RDWR|syscall.O_NOCTTY, 0)
	if err != nil {
		return fmt.Errorf("open slave: %v", err)
	}
	if err := syscall.Dup2(int(s.Fd()), 0); err != nil {
		return fmt.Errorf("dup2: %v", err)
	}
	c17Master = m
	// conformance of the seam: the width set on the master is the width the slave reports
	if err := c17SetWidth(97); err != nil {
		return err
	}
	ws, err := unix.IoctlGetWinsize(0, unix.TIOCGWINSZ)
	if err != nil || ws.Col != 97 {
		return fmt.Errorf("pty width not visible on fd 0: %v %v", ws, err)
	}
	return nil
}

func c17SetWidth(w int) error {
	return unix.IoctlSetWinsize(int(c17Master.Fd()), unix.TIOCSWINSZ, &unix.Winsize{Row: 24, Col: uint16(w)})
}

type c17Row struct {
	long, short, valname string
	choices              bool
	namespaced           bool // the row sits in a group with a namespace (the printed long name is longer than the declared one)
	inHiddenParent       bool // that group is itself nested in a hidden group (the library prints such a group: it must then also measure it)
	wide                 bool // many long choices: the description column lies beyond 64
	optional             bool // the option's argument is optional (optional:"yes" optional-value:"dflt")
}

func c17Script(s string, script int) string {
	switch script {
	case 1:
		return strings.Repeat("é", len(s))
	case 2:
		return strings.Repeat("中", len(s))
	case 3:
		return strings.Repeat("𠮷", len(s)) // 4 bytes, outside the Basic Multilingual Plane
	}
	return s
}

// word of n characters in the given script (no hyphens, no blanks)
func c17Word(n int, script int, seed int) string {
	letters := []string{"abcdefghij", "éa中öñbßø字æ", "中文字符测试数据甲乙", "𠮷𠀋𡈽𠮟𩸽𠂤𠁣𠃊𠄀𠅘"}[script]
	r := []rune(letters)
	var b strings.Builder
	for i := 0; i < n; i++ {
		b.WriteRune(r[(i+seed)%len(r)])
	}
	return b.String()
}

var c17Patterns = [][]int{
	{}, {1}, {9, 9, 9}, {10, 1, 10}, {11, 40, 1}, {40, 9, 9, 9, 9, 9}, {1, 1, 1, 1, 1, 1, 1, 1, 1, 1, 1, 1}, {9, 10, 11, 40, 9}, {40}, {40, 40}, {5, 5, 5, 5, 5, 5, 5, 5}, {10, 10, 10}, {11, 11}, {1, 40, 1}, {25, 3, 25}, {9, 1, 9, 1, 9},
}

// description: marker word, then the pattern's words; lf 1, 2 puts a line break after the lf-th word, lf 3, 4 two blanks
// after the (lf-2)-th word (as after a full stop)
func c17Desc(marker string, pat []int, script int, lf int) string {
	words := []string{marker}
	for i, n := range pat {
		words = append(words, c17Word(n, script, i))
	}
	var b strings.Builder
	for i, w := range words {
		if i > 0 {
			if lf > 0 && lf <= 2 && i == lf {
				b.WriteString("\n")
			} else if lf > 2 && i == lf-2 {
				b.WriteString("  ")
			} else {
				b.WriteString(" ")
			}
		}
		b.WriteString(w)
	}
	return b.String()
}

type c17Built struct {
	p     *flags.Parser
	descs map[string]string // marker -> description
}

var c17Cache = map[string]*c17Built{}

func c17Build(key string, row c17Row, onCmd bool, wide bool, posVariant int, pat []int, dscript int, lf int) (*c17Built, error) {
	if b := c17Cache[key]; b != nil {
		return b, nil
	}
	if len(c17Cache) > 8 {
		c17Cache = map[string]*c17Built{}
	}
	added := posVariant == 4 // no positional; built through the API, every option handed over with (*Group).AddOption
	if added {
		posVariant = 0
	}
	descs := map[string]string{}
	t := decl.TString
	if row.valname == "VAL" && !wide && !row.optional {
		t = decl.TOnOff // a bool-kinded type with its own UnmarshalFlag: it takes an argument, so its value name and choices are part of the row
	}
	u := &decl.Opt{Field: "U", Long: row.long, Short: row.short, ValueName: row.valname, Type: t}
	if row.choices {
		u.Choices = []string{"ab", "cd"}
		if row.valname == "VAL" {
			u.Choices = []string{"the-only-choice-there-is"} // a single choice is listed too, and counts for the row's width
		}
	}
	if row.optional {
		u.Optional, u.OptionalVal = "yes", []string{"dflt"}
	}
	descs["Qx"] = c17Desc("Qx", pat, dscript, lf)
	u.Desc = descs["Qx"]
	w := &decl.Opt{Field: "W", Long: "wide-long-name-here1", Short: "w", Type: decl.TBool}
	w.Desc = c17Desc("Wz", []int{9, 9}, 0, 0)
	small := &decl.Opt{Field: "K", Long: "k", Type: decl.TBool}
	small.Desc = "@\n" + c17Desc("Kz", []int{5}, 0, 0) // a first line of a single one-byte character, then a line break
	if wide {
		descs["Wz"] = w.Desc
	} else {
		descs["@"] = small.Desc
	}
	top := &decl.Cmd{Name: "app", SubOptional: true}
	cmd := &decl.Cmd{Field: "Cmd", Name: "cmd", Desc: "CMDDESCa"}
	// a second, described command whose name is longer in bytes than in characters (the command list has its own column)
	top.Cmds = []*decl.Cmd{cmd, {Field: "Uml", Name: "prüfen-größe", Desc: "CMDDESCb"}, {Field: "Jp", Name: "日本", Desc: "CMDDESCc"}}
	first := small
	if wide {
		first = w
	}
	nsGroup := &decl.Group{Field: "NsG", Name: "Namespaced", Namespace: "namespace-of-group", Opts: []*decl.Opt{u}}
	if row.inHiddenParent {
		nsGroup = &decl.Group{Field: "HidP", Name: "HiddenParent", Hidden: true, Groups: []*decl.Group{nsGroup}}
	} else if row.namespaced && row.choices {
		// (rows flagged namespaced+choices: the namespaced group is itself nested in another namespaced group)
		nsGroup = &decl.Group{Field: "OutNs", Name: "OuterNamespaced", Namespace: "outer-namespace", Groups: []*decl.Group{nsGroup}}
	}
	if row.namespaced && row.choices {
		u.Choices = nil
	}
	if row.wide {
		u.Choices = []string{"trace", "debug", "info", "notice", "warning", "error", "fatal", "panic-now"}
	}
	bareCmd := posVariant == 3 // the active command has no option at all, only a described positional with a long name
	optsOnCmd := onCmd && !bareCmd
	if optsOnCmd {
		top.Opts = []*decl.Opt{first}
		cmd.Opts = []*decl.Opt{{Field: "C", Long: "copt", Type: decl.TBool, Desc: c17Desc("Cz", []int{9}, 0, 0)}, u}
		descs["Cz"] = cmd.Opts[0].Desc
		if row.namespaced {
			cmd.Opts = cmd.Opts[:1]
			cmd.Groups = []*decl.Group{nsGroup}
		}
	} else if row.namespaced {
		top.Opts = []*decl.Opt{first}
		top.Groups = []*decl.Group{nsGroup}
	} else {
		top.Opts = []*decl.Opt{first, u}
	}
	if posVariant > 0 {
		name := "posarg"
		if posVariant == 2 {
			name = "pösärgé"
		}
		if bareCmd {
			name = "a-positional-argument-with-a-rather-long-name"
		}
		descs["Pz"] = c17Desc("Pz", pat, dscript, lf)
		pa := &decl.PosArg{Field: "A", Name: name, Type: decl.TString, Desc: descs["Pz"]}
		if onCmd {
			cmd.Pos = []*decl.PosArg{pa}
		} else {
			// the parser's own positional would swallow the command word: describe it on the command instead when the row sits there
			top.Pos = []*decl.PosArg{pa}
		}
	}
	d := (&decl.Decl{Top: top}).Finish()
	var b *decl.Built
	if added {
		b = d.BuildAdded()
	} else {
		b = d.BuildTags()
	}
	if b.Err != nil {
		return nil, b.Err
	}
	if onCmd {
		argv := []string{"cmd"}
		if _, err := b.Parser.ParseArgs(argv); err != nil {
			return nil, fmt.Errorf("selecting the command: %v", err)
		}
	}
	cb := &c17Built{p: b.Parser, descs: descs}
	c17Cache[key] = cb
	return cb, nil
}

func runeIndex(line, marker string) int {
	i := strings.Index(line, marker)
	if i < 0 {
		return -1
	}
	return utf8.RuneCountInString(line[:i])
}

func init() {
	// rows under test
	var rows []c17Row
	for _, ll := range []string{"", "l", "longg", "twentycharslongname1"} {
		for script := 0; script < 3; script++ {
			if ll == "" && script > 0 {
				continue
			}
			for _, sh := range []string{"", "s", "é"} {
				if ll == "" && sh == "" {
					continue
				}
				for _, vn := range []string{"", "VAL", "VÄLÜ"} {
					for _, ch := range []bool{false, true} {
						rows = append(rows, c17Row{c17Script(ll, script), sh, vn, ch, false, false, false, false})
					}
				}
				if ll != "" {
					rows = append(rows, c17Row{c17Script(ll, script), sh, "", false, true, false, false, false})
					rows = append(rows, c17Row{c17Script(ll, script), sh, "", false, true, true, false, false})
					rows = append(rows, c17Row{c17Script(ll, script), sh, "", true, true, false, false, false})  // nested namespaces
					rows = append(rows, c17Row{c17Script(ll, script), sh, "", false, false, false, false, true}) // optional argument, no value name
					if script == 0 {
						rows = append(rows, c17Row{c17Script(ll, script), sh, "LEVEL", true, false, false, true, false}) // very wide row
						rows = append(rows, c17Row{c17Script(ll, script), sh, "VAL", false, false, false, false, true})  // optional argument with a value name
					}
				}
			}
		}
	}
	body := func(c *explore.Ctx) {
		ri := c.Choose(len(rows))
		onCmd := c.Bool()
		wide := c.Bool()
		posVariant := c.Choose(5) // 3: on an active command without any option (the row under test stays on the parser); 4: as 0, options handed over with AddOption
		npat := len(c17Patterns)
		if !c.Thorough {
			npat = 8
		}
		pi := c.Choose(npat)
		dscript := c.Choose(4)
		pat := c17Patterns[pi]
		if !c.Thorough && dscript >= 2 && posVariant != 0 {
			c.Skip() // quick: the 3- and 4-byte description scripts go without a described positional
		}
		if posVariant == 3 && (!onCmd || dscript != 0) {
			c.Skip()
		}
		if posVariant == 4 {
			if dscript != 0 {
				c.Skip()
			}
			c.Hit("options-added-with-AddOption")
		}
		lf := 0
		if len(pat) >= 2 {
			lf = c.Choose(5) // 0 none; line break 1 after the marker, 2 after the first word; two blanks 3 after the marker, 4 after the first word
			if lf > 2 && (dscript != 0 || posVariant == 2) {
				c.Skip() // the double blank goes with ASCII descriptions
			}
		}
		maxW := 100
		if c.Thorough {
			maxW = 300
		}
		width := maxW - c.Choose(maxW+1) // widest first: a width remembered from an earlier rendering would be too large for the later ones
		reported := width
		if width == 0 {
			width = 80 // a terminal that reports no columns: the documented fallback width applies
			c.Hit("zero-columns")
		}
		row := rows[ri]
		key := fmt.Sprint(ri, onCmd, wide, posVariant, pi, dscript, lf)
		c.Describe(func() interface{} {
			return map[string]interface{}{"row": fmt.Sprintf("short=%q long=%q value-name=%q choices=%v optional-argument=%v in-namespaced-group=%v nested-in-hidden-group=%v", row.short, row.long, row.valname, row.choices, row.optional, row.namespaced, row.inHiddenParent), "on_command": onCmd, "wide_neighbour": wide,
				"positional": posVariant, "description": c17Desc("Qx", pat, dscript, lf), "width": width}
		})
		cb, err := c17Build(key, row, onCmd, wide, posVariant, pat, dscript, lf)
		if err != nil {
			c.Fail("setup-error", err.Error())
			return
		}
		if c17Master == nil {
			c.Fail("harness-no-pty", nil)
			return
		}
		if err := c17SetWidth(reported); err != nil {
			c.Fail("harness-set-width", err.Error())
			return
		}
		script := "ascii"
		if !isASCII(row.long+row.short+row.valname) || (posVariant == 2) || dscript != 0 {
			script = "multibyte"
		}
		var text string
		func() {
			defer func() {
				if r := recover(); r != nil {
					c.Fail("panic|"+explore.PanicSite()+"|"+script, fmt.Sprint(r))
				}
			}()
			var buf bytes.Buffer
			cb.p.WriteHelp(&buf)
			text = buf.String()
		}()
		if c.Failed() {
			return
		}
		c.Hit("rendered")
		lines := strings.Split(text, "\n")
		for _, ln := range lines {
			if !utf8.ValidString(ln) {
				c.Fail("corrupted-characters|"+script, map[string]interface{}{"line": fmt.Sprintf("%q", ln), "help": text})
				return
			}
		}
		// 0. the list of commands has a description column of its own: one column for all of them, counted in characters
		{
			ccol, in := -1, false
			for _, ln := range lines {
				if strings.HasPrefix(ln, "Available commands:") {
					in = true
					continue
				}
				if !in {
					continue
				}
				if strings.TrimSpace(ln) == "" {
					break
				}
				if ci := runeIndex(ln, "CMDDESC"); ci >= 0 {
					c.Hit("command-list")
					if ccol >= 0 && ci != ccol {
						c.Fail("command-descriptions-not-in-one-column|"+script, map[string]interface{}{"columns": []int{ccol, ci}, "help": text})
						return
					}
					ccol = ci
				}
			}
		}
		// 1. one common description column
		col := -1
		type blk struct {
			marker string
			line   int
		}
		var blocks []blk
		var markers []string
		for m := range cb.descs {
			markers = append(markers, m)
		}
		sort.Strings(markers)
		for _, m := range markers {
			found := -1
			for i, ln := range lines {
				if ci := runeIndex(ln, m); ci >= 0 && (found < 0) {
					found = i
					if col < 0 {
						col = ci
					} else if ci != col {
						c.Fail("description-columns-differ|"+script, map[string]interface{}{"marker": m, "column": ci, "other_column": col, "help": text})
						return
					}
				}
			}
			if found < 0 {
				c.Fail("description-missing|"+script, map[string]interface{}{"marker": m, "help": text})
				return
			}
			blocks = append(blocks, blk{m, found})
		}
		c.Outcome(fmt.Sprint(col), fmt.Sprint(width > col+10), script, fmt.Sprint(len(lines)))
		wrapW := width - col
		for _, bl := range blocks {
			want := strings.Fields(cb.descs[bl.marker])
			var pieces []string
			first := []rune(lines[bl.line])
			pieces = append(pieces, string(first[col:]))
			for i := bl.line + 1; i < len(lines); i++ {
				ln := lines[i]
				if ln == "" {
					// the library leaves an empty line after a hyphen break; tolerated (not a continuation line)
					if strings.HasSuffix(pieces[len(pieces)-1], "-") && i+1 < len(lines) && lines[i+1] != "" {
						continue
					}
					break
				}
				isOther := false
				for m := range cb.descs {
					if m != bl.marker && strings.Contains(ln, m) {
						isOther = true
					}
				}
				if isOther {
					break
				}
				r := []rune(ln)
				// a continuation line: exactly col blanks, then text
				if len(r) <= col || strings.TrimSpace(string(r[:col])) != "" || r[col] == ' ' {
					if strings.TrimSpace(ln) == "" {
						break
					}
					c.Fail("continuation-line-not-at-description-column|"+script, map[string]interface{}{"line": ln, "column": col, "help": text})
					return
				}
				pieces = append(pieces, string(r[col:]))
			}
			// 2. nothing corrupted
			for _, p := range pieces {
				if !utf8.ValidString(p) {
					c.Fail("corrupted-characters|"+script, map[string]interface{}{"line": p, "help": text})
					return
				}
			}
			// 3. de-wrap: join hyphen breaks, compare the word sequence
			var sb strings.Builder
			for i, p := range pieces {
				if strings.HasSuffix(p, "-") && i+1 < len(pieces) {
					sb.WriteString(strings.TrimSuffix(p, "-"))
				} else {
					sb.WriteString(p)
					sb.WriteString(" ")
				}
			}
			got := strings.Fields(sb.String())
			if !sameStrings(got, want) {
				c.Fail("words-lost-or-reordered|"+script, map[string]interface{}{"marker": bl.marker, "want": want, "got": got, "help": text})
				return
			}
			// 4. no line past the terminal width while at least 10 columns remain
			if wrapW >= 10 {
				c.Hit("width-asserted")
				for i, p := range pieces {
					n := col + utf8.RuneCountInString(p)
					if n > width {
						c.Fail("line-exceeds-terminal-width|"+script, map[string]interface{}{"line_no": i, "length": n, "width": width, "help": text})
						return
					}
				}
			}
			if len(pieces) > 1 {
				c.Hit("wrapped")
			}
		}
	}
	explore.Register(&explore.Check{
		ID:         "C17",
		Level:      "exploration",
		ShardDepth: 4,
		Body:       body,
		Setup:      c17Setup,
		Rule: "(three described commands - an ASCII name, a name with two-byte characters, a name of three-byte characters: where the list of commands is shown its descriptions start in one column, counted in characters) row under test: long name of 0/1/5/20 characters in {ASCII, 2-byte, 3-byte} script x short name {none, ASCII, é} x value name {none, ASCII, non-ASCII} x choices? (two, or a single long one with the ASCII value name), plus rows whose argument is optional (with and without value name), plus every named row inside a group with a long namespace, alone, nested in a hidden group, nested in a second namespaced group, and a row with eight long choices (column beyond 64), last of its block, on the parser or on an active command (indented); the parser lists two commands, one described and with a multi-byte name " +
			"x neighbour row {widest of all, 1-character (its description starts with a line of one character)} x described positional {none, ASCII name, non-ASCII name, a long name on an active command that has no options} x description = marker word + word-length pattern (8 quick / 16 thorough patterns over lengths 1,5,9,10,11,25,40) in {ASCII, mixed 1/2/3-byte (so that the characters on both sides of a forced break differ in size), 3-byte, 4-byte (non-BMP)} script (quick: the last two without a described positional) x embedded line break {none, after marker, after first word} or two consecutive blanks {after marker, after first word; ASCII descriptions} " +
			"x every terminal width 1..100 (quick) / 1..300 (thorough), and 0 (a terminal that reports no columns: laid out as for 80), visited from the widest down within one process, set with TIOCSWINSZ on a real pty whose slave is fd 0 (the library's own ioctl reads it); oracle: no panic; all descriptions (found through their marker words) start in one character column; " +
			"every continuation line is exactly that many blanks + text; all lines valid UTF-8; joining hyphen breaks gives back the original word sequence; no description line longer than the width while width - column >= 10; distinct = distinct (column, width asserted?, script, line count)",
		Assumptions:  []string{"columns are counted in characters (East-Asian display width is not modelled)", "descriptions contain no hyphens and no empty lines"},
		RequiredHits: []string{"rendered", "wrapped", "width-asserted", "command-list"},
		Bound:        [2]string{"widths 1..100, 8 description patterns", "widths 1..300, 16 description patterns"},
		BudgetS:      [2]int{170, 1500},
	})
}

func isASCII(s string) bool {
	for i := 0; i < len(s); i++ {
		if s[i] >= 0x80 {
			return false
		}
	}
	return true
}
