package checks

import (
	"fmt"
	"os"
	"reflect"
	"sort"
	"strings"
	"unicode/utf8"

	flags "github.com/jessevdk/go-flags"

	"verif/mc/decl"
	"verif/mc/explore"
	"verif/mc/ref"
)

// C18 — completion offers exactly the valid continuations.

var c18Cache = map[string]*decl.Decl{}

// layout of add's positionals: 0 none, 1 [Words], 2 [Words,int], 3 [int,Words], 4 [Words, ...Words2]
func c18Decl(layout int, subOpt bool, defaultOpts bool, pano bool, ignoreUnknown bool) *decl.Decl {
	key := fmt.Sprint(layout, subOpt, defaultOpts, pano, ignoreUnknown)
	if d := c18Cache[key]; d != nil {
		return d
	}
	top := &decl.Cmd{Name: "app", SubOptional: subOpt, Opts: []*decl.Opt{
		{Field: "Verbose", Short: "v", Long: "verbose", Type: decl.TBools, Desc: "VD"},
		{Field: "File", Short: "f", Long: "file", Type: decl.TWords},
		{Field: "Opt", Short: "o", Long: "opt", Type: decl.TString, Optional: "yes", OptionalVal: []string{"ov"}},
		{Field: "Num", Short: "n", Long: "num", Type: decl.TInt},
		{Field: "Secret", Long: "secret", Type: decl.TBool, Hidden: "yes"},
		{Field: "Token", Long: "token", Short: "T", Type: decl.TString, Hidden: "yes"}, // hidden, takes an argument: never offered, but its argument is skipped like any other when typed
		{Field: "Vee", Long: "vee", Type: decl.TBool},
		{Field: "ShortOnly", Short: "x", Type: decl.TBool},
		{Field: "HiddenShort", Short: "y", Type: decl.TBool, Hidden: "yes"},
		{Field: "Umlaut", Short: "ü", Long: "umlaut", Type: decl.TWords2},
		{Field: "Color", Short: "c", Long: "color", Type: decl.TOnOff},
		{Field: "PW", Long: "pw", Type: decl.TPWords},
		{Field: "UpperShort", Short: "Z", Type: decl.TBool},    // sorts before every lower-case short name, after every long name
		{Field: "VeeMore", Long: "vee-more", Type: decl.TBool}, // --vee, typed completely, is still a prefix of this one
		{Field: "CI", Long: "ci", Type: decl.TWordsCI},         // its completer answers in lower case whatever the case typed
	}}
	deep := &decl.Cmd{Field: "Deep", Name: "deep", Opts: []*decl.Opt{{Field: "Depth", Long: "depth", Type: decl.TInt}}}
	add := &decl.Cmd{Field: "Add", Name: "add", Aliases: []string{"a2"}, SubOptional: true, Cmds: []*decl.Cmd{deep}, Opts: []*decl.Opt{
		{Field: "Force", Short: "F", Long: "force", Type: decl.TBool},
		{Field: "From", Long: "from", Type: decl.TWords2},
		{Field: "Verbose", Long: "verbatim", Type: decl.TBool},
		{Field: "Num2", Long: "num", Type: decl.TInt},   // same long name as the parser's -n/--num: shadows it, -n stays the parser's
		{Field: "ShortX", Short: "c", Type: decl.TBool}, // short-only, same letter as the parser's -c/--color: inside add, -c is this flag and --color stays the parser's
	}}
	pa := func(n string, t *decl.Type) *decl.PosArg { return &decl.PosArg{Field: n, Type: t} }
	switch layout {
	case 1:
		add.Pos = []*decl.PosArg{pa("A", decl.TWords)}
	case 2:
		add.Pos = []*decl.PosArg{pa("A", decl.TWords), pa("B", decl.TInt)}
	case 3:
		add.Pos = []*decl.PosArg{pa("A", decl.TInt), pa("B", decl.TWords)}
	case 4:
		add.Pos = []*decl.PosArg{pa("A", decl.TWords), pa("R", &decl.Type{Name: "[]Words2", RT: sliceOfWords2})}
	}
	adx := &decl.Cmd{Field: "Adx", Name: "adx", Opts: []*decl.Opt{{Field: "X", Long: "xflag", Type: decl.TBool}}}
	rm := &decl.Cmd{Field: "Rm", Name: "rm", Opts: []*decl.Opt{{Field: "Recursive", Short: "r", Long: "recursive", Type: decl.TBool}}}
	hid := &decl.Cmd{Field: "Hid", Name: "hid", Hidden: true}
	top.Cmds = []*decl.Cmd{add, adx, rm, hid}
	// a group of the parser; with the API build it is added after the commands (and after some use of the parser)
	top.Groups = []*decl.Group{{Field: "LateG", Name: "Late Group", Opts: []*decl.Opt{{Field: "Late", Long: "late-opt", Type: decl.TBool}}}}
	d := &decl.Decl{Top: top, Options: flags.PassDoubleDash}
	if defaultOpts {
		d.Options = flags.HelpFlag | flags.PassDoubleDash
	}
	if pano {
		d.Options |= flags.PassAfterNonOption
	}
	if ignoreUnknown {
		d.Options |= flags.IgnoreUnknown
	}
	d.Finish()
	c18Cache[key] = d
	return d
}

var c18Units = [][]string{
	{"--token", "add"}, // the argument of a hidden option, spelled like a command
	{"-v"}, {"--verbose"}, {"-f"}, {"-f", "alpha"}, {"--file=alpha"}, {"-fbeta"}, {"-vf"}, {"-o"}, {"--opt=x"}, {"-n", "5"}, {"--num"},
	{"add"}, {"a2"}, {"rm"}, {"deep"}, {"adx"}, {"zz"}, {"alpha"}, {"7"}, {"--"}, {"--force"}, {"--from", "gamma"}, {"-x"}, {"-ü", "gamma"}, {"-ü"}, {"-vü"}, {"--color", "on"}, {"-c"}, {"--pw"}, {"--ci"}, {"-qv"},
}

var c18Last = []string{"", "-", "--", "--v", "--ve", "--vee", "--f", "--x", "--s", "-v", "-f", "-fal", "-f=al", "--file=al", "--file=", "--from=", "--from=a", "--num=", "al", "a", "ad", "r", "zz", "g", "d", "h", "--de", "-o", "--opt=", "be", "-ü", "-üal", "-ü=g", "--u", "--pw=al", "--c", "DE", "--ci=DEL"}

func wordsMatching(list []string, prefix string) []string {
	var out []string
	if len(list) > 0 && list[0] == "\x00ci" {
		list, prefix = list[1:], strings.ToLower(prefix) // a completer that matches case-insensitively
	}
	for _, w := range list {
		if strings.HasPrefix(w, prefix) {
			out = append(out, w)
		}
	}
	sort.Strings(out)
	return out
}

func completerWords(t *decl.Type) ([]string, bool) {
	rt := t.RT
	if t.IsSlice() {
		rt = rt.Elem()
	}
	for rt.Kind() == reflect.Ptr {
		rt = rt.Elem()
	}
	switch rt {
	case decl.TWords.RT:
		return decl.WordList, true
	case decl.TWords2.RT:
		return decl.WordList2, true
	case decl.TWordsCI.RT:
		return append([]string{"\x00ci"}, decl.WordListCI...), true
	}
	return nil, false
}

var sliceOfWords2 = decl.SliceOf(decl.TWords2)

func init() {
	body := func(c *explore.Ctx) {
		layout := c.Choose(5)
		subOpt := c.Bool()
		defOpts := c.Bool()
		lateAPI := c.Deviate(2) == 1 // built through the API; the parser's group is added after the commands and after a first completion and parse
		// PassAfterNonOption set as well (two positional layouts whose fields complete differently): asserted before the first plain
		// word as always, after it only where a positional value is being completed
		afterIgnored := false
		optVariant := c.Choose(3) // 1: PassAfterNonOption; 2: IgnoreUnknown (typed words with a passed-through unknown option are skipped: nothing may change)
		pano, ignoreUnknown := optVariant == 1, optVariant == 2
		if optVariant != 0 && !((layout == 2 || layout == 4) && (!subOpt || optVariant == 2) && !defOpts && !lateAPI) {
			c.Skip()
		}
		maxDepth := 3
		if !c.Thorough && (defOpts || subOpt || layout == 1 || layout == 3) {
			maxDepth = 2 // quick: the HelpFlag variants only differ by the built-in help options; two of the five layouts stay at 2
		}
		if c.Thorough && layout == 2 && !defOpts {
			maxDepth = 4
		}
		if lateAPI && !c.Thorough && maxDepth > 2 {
			maxDepth = 2
		}
		if optVariant != 0 && !c.Thorough && maxDepth > 2 {
			maxDepth = 2
		}
		n := c.Choose(maxDepth + 1)
		var prefix []string
		for i := 0; i < n; i++ {
			prefix = append(prefix, c18Units[c.Choose(len(c18Units))]...)
		}
		last := c18Last[c.Choose(len(c18Last))]
		d := c18Decl(layout, subOpt, defOpts, pano, ignoreUnknown)
		c.Describe(func() interface{} {
			return map[string]interface{}{"add_positionals": layout, "subcommands_optional": subOpt, "help_flag": defOpts, "api_build_with_group_added_after_use": lateAPI, "pass_after_non_option": pano, "ignore_unknown": ignoreUnknown, "typed_words": prefix, "partial_last_word": last}
		})
		cfg := &ref.Config{D: d, Prefix: true}
		res := ref.Run(cfg, prefix)
		if res.Fault != nil || res.Grey {
			c.Skip() // not a valid command-line prefix
		}
		if pano {
			passing, dashAfter := false, false
			for i, f := range res.Fates {
				if passing && strings.HasPrefix(prefix[i], "-") {
					dashAfter = true
				}
				if f == ref.FPositional || f == ref.FRest {
					passing = true
				}
			}
			if passing && (len(res.Queue) == 0 || strings.HasPrefix(last, "-") || dashAfter) {
				// after the first plain word everything is an argument, which the completer does not follow: only the
				// completion of a positional value after plain words is asserted there
				c.Skip()
			}
			c.Hit("pass-after-non-option")
		}
		if ignoreUnknown {
			// typed words in which an option unknown at its position was passed through are left out: with mandatory
			// subcommands such a line can never be completed to a valid one, and how completion follows it is not stated
			for i, f := range res.Fates {
				if prefix[i] == "--" {
					break
				}
				if (f == ref.FPositional || f == ref.FRest) && strings.HasPrefix(prefix[i], "-") {
					if !subOpt {
						c.Skip()
					}
					afterIgnored = true // with optional subcommands the line stays valid: asserted like any other
				}
			}
			c.Hit("ignore-unknown")
		}
		key := fmt.Sprint(layout, subOpt, defOpts, optVariant)
		recordStates(c, key, res, nil)
		// run the real completer
		build := func() *decl.Built {
			if !lateAPI {
				return d.BuildTags()
			}
			return d.BuildAPIWith(func(hb *decl.Built) {
				// use the half-built parser: one completion inside add, one parse selecting add deep
				hb.Parser.CompletionHandler = func([]flags.Completion) {}
				os.Setenv("GO_FLAGS_COMPLETION", "1")
				hb.Parser.ParseArgs([]string{"add", "--"})
				os.Unsetenv("GO_FLAGS_COMPLETION")
				hb.Parser.ParseArgs([]string{"add", "deep"})
				hb.Parser.ParseArgs([]string{"rm"})
				rezero(hb)
			})
		}
		b := build()
		if b.Err != nil {
			c.Fail("setup-error", b.Err.Error())
			return
		}
		if !lateAPI && (len(prefix)+len(last))%2 == 1 {
			// the same parser has answered other completion requests before (a shell asks again at every TAB): partial command
			// words at two levels and a partial option name, each of which leaves only some of the candidates
			c.Hit("earlier-completion-requests")
			b.Parser.CompletionHandler = func([]flags.Completion) {}
			os.Setenv("GO_FLAGS_COMPLETION", "1")
			for _, w := range [][]string{{"a"}, {"r"}, {"add", "d"}, {"add", "--d"}, {"--v"}, {"zz"}} {
				func() {
					defer func() { recover() }()
					b.Parser.ParseArgs(w)
				}()
			}
			os.Unsetenv("GO_FLAGS_COMPLETION")
			rezero(b)
		}
		var items []flags.Completion
		calls := 0
		_ = afterIgnored
		b.Parser.CompletionHandler = func(it []flags.Completion) { items = it; calls++ }
		func() {
			os.Setenv("GO_FLAGS_COMPLETION", "1")
			defer os.Unsetenv("GO_FLAGS_COMPLETION")
			defer func() {
				if r := recover(); r != nil {
					c.Fail("panic|"+explore.PanicSite(), fmt.Sprint(r))
				}
			}()
			b.Parser.ParseArgs(append(append([]string{}, prefix...), last))
		}()
		if c.Failed() {
			return
		}
		if calls != 1 {
			c.Fail("completion-handler-calls", calls)
			return
		}
		var got []string
		for _, it := range items {
			got = append(got, it.Item)
		}
		c.Outcome(key, strings.Join(chainNames(res.Chain), "/"), fmt.Sprint(res.PendingOpt != nil, res.Terminated, len(res.Queue)), last, strings.Join(got, ","))
		// (d) sorted
		if !sort.StringsAreSorted(got) {
			c.Fail("not-sorted", got)
			return
		}
		// what the context demands
		var want []string
		asserted := false
		class := ""
		visibleOpts := func(prefix string, includeShortOnly bool) []string {
			var out []string
			seen := map[*decl.Opt]bool{}
			for name, o := range res.Long {
				if o.ID == "<help>" {
					if strings.HasPrefix("help", prefix) {
						out = append(out, "--help")
					}
					continue
				}
				if !o.IsHidden() && strings.HasPrefix(name, prefix) {
					out = append(out, "--"+name)
					seen[o] = true
				}
			}
			if includeShortOnly {
				for name, o := range res.Short {
					if o.ID == "<help>" || o.IsHidden() {
						continue
					}
					if o.Long != "" && res.Long[o.LongNS] == o {
						continue // already offered under its long name
					}
					// short-only options, and options whose long name is shadowed by an inner command's option
					out = append(out, "-"+name)
				}
			}
			sort.Strings(out)
			return out
		}
		switch {
		case res.PendingOpt != nil:
			class = "option-value-separate"
			if words, ok := completerWords(res.PendingOpt.Type); ok {
				want, asserted = wordsMatching(words, last), true
			}
		case res.Terminated:
			class = "after-terminator"
			if len(res.Queue) > 0 {
				if words, ok := completerWords(res.Queue[0].Type); ok && !strings.HasPrefix(last, "-") {
					want, asserted = wordsMatching(words, last), true
				}
			} else if !strings.HasPrefix(last, "-") {
				// nothing pending: a plain word completes to the subcommands of the context the parser is in
				// (words after the terminator never select commands)
				asserted = true
				for _, sc := range res.Cur.Cmds {
					if !sc.Hidden && strings.HasPrefix(sc.Name, last) {
						want = append(want, sc.Name)
					}
				}
				sort.Strings(want)
			}
		case last == "-":
			class = "bare-dash"
			want, asserted = visibleOpts("", true), true
		case strings.HasPrefix(last, "--") && !strings.Contains(last, "="):
			class = "long-name"
			want, asserted = visibleOpts(last[2:], false), true
		case strings.HasPrefix(last, "--"):
			class = "long-value"
			eq := strings.Index(last, "=")
			if o := res.Long[last[2:eq]]; o != nil {
				if words, ok := completerWords(o.Type); ok {
					asserted = true
					for _, w := range wordsMatching(words, last[eq+1:]) {
						want = append(want, last[:eq+1]+w)
					}
				}
			}
		case strings.HasPrefix(last, "-"):
			class = "short"
			r, n := utf8.DecodeRuneInString(last[1:])
			if o := res.Short[string(r)]; o != nil && !o.Type.IsFlag() {
				if words, ok := completerWords(o.Type); ok {
					asserted = true
					rest := last[1+n:]
					pre := last[:1+n]
					if strings.HasPrefix(rest, "=") {
						rest, pre = rest[1:], pre+"="
					}
					for _, w := range wordsMatching(words, rest) {
						want = append(want, pre+w)
					}
				}
			}
		case len(res.Queue) > 0:
			class = "positional-value"
			if words, ok := completerWords(res.Queue[0].Type); ok {
				want, asserted = wordsMatching(words, last), true
			}
		default:
			class = "command-name"
			asserted = true
			for _, sc := range res.Cur.Cmds {
				if !sc.Hidden && strings.HasPrefix(sc.Name, last) {
					want = append(want, sc.Name)
				}
			}
			sort.Strings(want)
		}
		c.Hit("class:" + class)
		if asserted {
			c.Hit("asserted")
			if !sameStrings(got, want) {
				ctx := "context=" + strings.Join(chainNames(res.Chain), "/")
				if afterIgnored {
					ctx = "after-an-ignored-unknown-option"
				}
				if len(res.Rest) > 0 {
					ctx += "+plain-word-before"
				}
				c.Fail("offers-differ|"+class+"|"+ctx, map[string]interface{}{"want": want, "got": got})
				return
			}
		}
		// (e) every offered option or command is accepted by the parser at that position
		for _, it := range got {
			isOpt := strings.HasPrefix(it, "-") && (class == "bare-dash" || class == "long-name")
			isCmd := class == "command-name"
			if !isOpt && !isCmd {
				continue
			}
			b2 := build()
			argv := append(append([]string{}, prefix...), it)
			rr := runParser(b2, &ref.Config{D: d}, argv, runOpts{})
			if rr.Panic != nil {
				c.Fail("panic-in-parser|"+rr.PanicSite, fmt.Sprint(rr.Panic))
				return
			}
			if fe, ok := rr.Err.(*flags.Error); ok && (fe.Type == flags.ErrUnknownFlag || fe.Type == flags.ErrUnknownCommand) {
				c.Fail("offer-rejected-by-parser|"+class+"|"+fe.Type.String(), map[string]interface{}{"offer": it, "argv": argv, "error": fe.Message})
				return
			}
			c.Hit("offer-reparsed")
		}
		// (f) the parser's own parse of the typed words reaches the context the model computed
		{
			b3 := d.BuildTags()
			runParser(b3, &ref.Config{D: d}, prefix, runOpts{})
			if lateAPI {
				c.Hit("late-built")
			}
			if res.PendingOpt == nil && !sameStrings(b3.ActiveChain(), chainNames(res.Chain)) {
				c.Fail("parser-context-differs", map[string]interface{}{"parser": b3.ActiveChain(), "model": chainNames(res.Chain)})
			}
		}
	}
	explore.Register(&explore.Check{
		ID:         "C18",
		Level:      "model_checking",
		ShardDepth: 7,
		Body:       body,
		Rule: "(in the cells where the number of typed words plus the length of the partial word is odd, the tag-built parser has answered six other completion requests before - partial command words at two levels, partial option names, a word nothing matches) declaration with Completer-typed options (short+long, long-only, a multi-byte short name, two different word lists, a completer that matches case-insensitively and answers in lower case), an optional-argument option, hidden long and hidden short-only options, hidden command, short-only options in lower and upper case, commands sharing a prefix (add, adx), alias, sub-subcommand; " +
			"positionals of add in 5 layouts (none, [Words], [Words,int], [int,Words], [Words, ...Words2]) x subcommands-optional on the parser yes/no x HelpFlag yes/no (+ IgnoreUnknown, + PassAfterNonOption on the two layouts whose positionals complete differently: after the first plain word only positional values are asserted) x {struct tags, API build where a group of the parser is added after the commands and after a first completion and parse on the half-built parser}; every valid prefix (the CLM in prefix mode accepts it) of <= 3 units (quick: <= 2 on the HelpFlag variants, with optional subcommands and on two of the five positional layouts; thorough: <= 4 on the [Words,int] layout without HelpFlag) over 32 units (incl. a hidden argument-taking option whose separate argument is spelled like a command) " +
			"(flags, separate / attached / '=' arguments, pending option, cluster ending in a pending option, optional-argument option, command words and alias, plain words, numbers, terminator) x 38 partial last words; " +
			"oracle from the CLM context after the prefix: (a) '-' / '--p' => exactly the non-hidden options in scope with that prefix, (b) value position of a Completer-typed option or positional => exactly its words re-attached to the spelling, " +
			"(c) otherwise the non-hidden subcommands with that prefix, (d) sorted, (e) every offered option/command re-parsed by the real parser at that position is not unknown, (f) the real parser's Active chain on the typed words equals the model's",
		Assumptions:  []string{"left unasserted: option names after --, the echo of a complete short flag, value positions whose type has no completions, option and command names after the first plain word under PassAfterNonOption"},
		RequiredHits: []string{"earlier-completion-requests", "asserted", "offer-reparsed", "class:bare-dash", "class:long-name", "class:long-value", "class:short", "class:positional-value", "class:command-name", "class:option-value-separate", "class:after-terminator", "pass-after-non-option"},
		Bound:        [2]string{"prefixes <= 3 units", "prefixes <= 3 units, <= 4 on one declaration family"},
		BudgetS:      [2]int{170, 1500},
	})
}
