package checks

import (
	"fmt"
	"strings"

	flags "github.com/jessevdk/go-flags"

	"verif/mc/decl"
	"verif/mc/explore"
	"verif/mc/ref"
)

// C07 — unknown options are never silently accepted.

func c07Decl(opts flags.Options) *decl.Decl {
	top := &decl.Cmd{Name: "app", SubOptional: true, Opts: []*decl.Opt{
		{Field: "Verbose", Short: "v", Long: "verbose", Type: decl.TBools},
		{Field: "Opt", Short: "é", Long: "Opt", Type: decl.TInt},
		{Field: "Lonely", Long: "lonely", Type: decl.TString}, // long-only: it has no short name at all
	}}
	top.Groups = []*decl.Group{{Field: "NS", Name: "Namespaced", Namespace: "ns", Opts: []*decl.Opt{{Field: "O", Short: "o", Long: "opt", Type: decl.TString},
		{Field: "K", Short: "k", Type: decl.TBools}}}} // short-only inside the namespaced group: the bare prefix --ns. names nothing
	deep := &decl.Cmd{Field: "Deep", Name: "deep", Opts: []*decl.Opt{{Field: "Depth", Short: "d", Long: "depth", Type: decl.TInt}}}
	add := &decl.Cmd{Field: "Add", Name: "add", SubOptional: true, Cmds: []*decl.Cmd{deep}, Opts: []*decl.Opt{{Field: "Force", Short: "f", Long: "force", Type: decl.TBools}}}
	rm := &decl.Cmd{Field: "Rm", Name: "rm", Opts: []*decl.Opt{{Field: "Recursive", Short: "r", Long: "recursive", Type: decl.TBools}},
		Pos: []*decl.PosArg{{Field: "Count", Type: decl.TInt}}}
	top.Cmds = []*decl.Cmd{add, rm}
	d := &decl.Decl{Top: top, Options: opts}
	return d.Finish()
}

var c07UnitsTerminator = append(append([][]string{}, c07Units...), []string{"--"})

var c07Units = [][]string{
	// valid somewhere
	{"-v"}, {"--ns.opt=1"}, {"-o", "x"}, {"add"}, {"rm"}, {"deep"}, {"--force"}, {"-f"}, {"--depth=2"}, {"-é5"}, {"w"}, {"--recursive"},
	// near misses: unknown everywhere
	{"--Verbose"}, {"--verb"}, {"--verbos"}, {"--verbosee"}, {"--opt"}, {"--ns.ns.opt"}, {"--ns.op=1"}, {"--OPT"}, {"--opt=3"},
	{"-x"}, {"-vx"}, {"-xv"}, {"-vxy"}, {"-V"}, {"--unk=val"}, {"-x=val"}, {"-è5"}, {"--ns.Opt=1"},
	{"--ns."}, {"--help"}, {"--50%off"}, {"-v%"}, {"-v\x00"}, {"-75"}, {"5"},
}

func init() {
	type policy struct {
		name    string
		opts    flags.Options
		handler ref.HandlerMode
	}
	policies := []policy{
		{"fail", flags.None, ref.NoHandler},
		{"ignore", flags.IgnoreUnknown, ref.NoHandler},
		{"handler-keep", flags.None, ref.HandlerKeep},
		{"handler-drop-next", flags.None, ref.HandlerDropNext},
		{"handler-drop-all", flags.None, ref.HandlerDropAll},
		{"handler-insert", flags.None, ref.HandlerInsert},
		{"handler-error", flags.None, ref.HandlerError},
		{"fail+passdoubledash", flags.PassDoubleDash, ref.NoHandler},
		{"ignore+passafternonoption", flags.IgnoreUnknown | flags.PassAfterNonOption, ref.NoHandler},
		{"fail+helpflag", flags.HelpFlag, ref.NoHandler}, // a help request behind an unknown option does not rescue it
		// a handler on a parser with PassDoubleDash: "exactly the not-yet-consumed arguments" includes a terminator and what follows it (C07-33)
		{"handler-keep+passdoubledash", flags.PassDoubleDash, ref.HandlerKeep},
		{"handler-drop-next+passdoubledash", flags.PassDoubleDash, ref.HandlerDropNext},
	}
	decls := map[flags.Options]*decl.Decl{}
	body := func(c *explore.Ctx) {
		pi := c.Choose(len(policies) + 2)
		if pi == len(policies) {
			c07Excluded(c, []flags.Options{flags.None, flags.IgnoreUnknown, flags.PassDoubleDash}[c.Choose(3)])
			return
		}
		if pi == len(policies)+1 {
			c07Namespaces(c)
			return
		}
		pol := policies[pi]
		api := c.Bool()
		warm := c.Choose(3) // 0: fresh parser; 1, 2: the same parser has parsed [add --force deep] / [rm] before
		maxDepth := 4
		if c.Thorough && (pol.name == "fail" || pol.name == "ignore") {
			maxDepth = 5
		} else if c.Thorough {
			maxDepth = 4
		}
		if c.Thorough && (warm != 0 || api) && maxDepth == 4 {
			maxDepth = 5 // compensates the decrement below: these families stay at 4 in the thorough tier
		}
		if warm != 0 || api || (pol.handler != ref.NoHandler && pol.handler != ref.HandlerKeep) || pol.opts&flags.PassAfterNonOption != 0 {
			maxDepth-- // the reused-parser variants, the API build and the handler variants that rewrite the arguments go one unit less deep
		}
		n := c.Choose(maxDepth + 1)
		units := c07Units
		if pol.opts&flags.PassDoubleDash != 0 {
			units = c07UnitsTerminator // the same alphabet and the terminator itself
		}
		var argv []string
		for i := 0; i < n; i++ {
			argv = append(argv, units[c.Choose(len(units))]...)
		}
		d := decls[pol.opts]
		if d == nil {
			d = c07Decl(pol.opts)
			decls[pol.opts] = d
		}
		c.Describe(func() interface{} {
			return map[string]interface{}{"policy": pol.name, "api_path": api, "earlier_parse_on_same_parser": warm, "argv": argv, "tree": describeTree(d.Top)}
		})
		cfg := &ref.Config{D: d, Handler: pol.handler}
		res := ref.Run(cfg, argv)
		if msg := res.CheckInvariants(argv); msg != "" {
			c.Fail("model-invariant", msg)
			return
		}
		recordStates(c, pol.name, res, nil)
		var b *decl.Built
		if api {
			b = d.BuildAPI()
		} else {
			b = d.BuildTags()
		}
		if b.Err != nil {
			c.Fail("setup-error", b.Err.Error())
			return
		}
		if warm != 0 {
			// what is in scope must not depend on what an earlier parse on the same parser selected
			w := [][]string{nil, {"add", "--force", "deep", "--depth=1"}, {"rm", "--recursive"}}[warm]
			if wr := runParser(b, &ref.Config{D: d}, w, runOpts{}); wr.Err != nil || wr.Panic != nil {
				c.Fail("harness-warm-up-parse-failed", fmt.Sprint(wr.Err, wr.Panic))
				return
			}
			rezero(b)
			c.Hit("after-earlier-parse")
		}
		rr := runParser(b, cfg, argv, runOpts{})
		if rr.Panic != nil {
			c.Fail("panic|"+rr.PanicSite, fmt.Sprint(rr.Panic))
			return
		}
		c.Outcome(pol.name, errType(rr.Err), strings.Join(rr.Rest, "\x01"), fmt.Sprint(len(rr.HandlerCalls)))
		fe, isFE := rr.Err.(*flags.Error)
		wantUnknown := res.Fault != nil && !res.Fault.Raw && res.Fault.Type == flags.ErrUnknownFlag
		gotUnknown := isFE && fe.Type == flags.ErrUnknownFlag
		switch {
		case wantUnknown && rr.Err == nil:
			c.Fail("unknown-option-accepted|"+pol.name+"|"+c07Class(res.Fault.Token), map[string]interface{}{"token": res.Fault.Token})
			return
		case wantUnknown && !gotUnknown:
			c.Fail("unknown-option-wrong-error|"+pol.name+"|"+errType(rr.Err), map[string]interface{}{"token": res.Fault.Token, "error": fmt.Sprint(rr.Err)})
			return
		case wantUnknown:
			c.Hit("unknown-rejected")
			if !strings.Contains(fe.Message, res.Fault.Names[0]) {
				c.Fail("unknown-option-not-named", map[string]interface{}{"message": fe.Message, "name": res.Fault.Names[0]})
			} else if tokName := strings.SplitN(strings.TrimLeft(res.Fault.Token, "-"), "=", 2)[0]; !strings.Contains(fe.Message, "`"+res.Fault.Names[0]+"'") && !strings.Contains(fe.Message, "`"+tokName+"'") {
				// what the message quotes is the undefined name, or the token it was found in (both identify it): not some other part of either
				c.Fail("unknown-option-misnamed|"+c07Class(res.Fault.Token), map[string]interface{}{"message": fe.Message, "undefined_name": res.Fault.Names[0], "token": res.Fault.Token})
			}
			return
		case gotUnknown:
			c.Fail("known-option-reported-unknown|"+pol.name, map[string]interface{}{"message": fe.Message, "model_fault": fmt.Sprint(res.Fault)})
			return
		}
		// handler observations: same calls, in order, with the same arguments
		if pol.handler != ref.NoHandler {
			if len(res.HandlerCalls) > 0 {
				c.Hit("handler-called")
			}
			if len(res.HandlerCalls) != len(rr.HandlerCalls) {
				c.Fail("handler-call-count|"+pol.name, map[string]interface{}{"want": len(res.HandlerCalls), "got": len(rr.HandlerCalls)})
				return
			}
			for i, w := range res.HandlerCalls {
				g := rr.HandlerCalls[i]
				if !w.Cluster && w.Name != g.Name {
					c.Fail("handler-name|"+pol.name, map[string]interface{}{"want": w.Name, "got": g.Name})
				}
				for _, u := range w.Unknown {
					// one call per token: whatever of the cluster is unknown has to be in the name the handler is given
					if !strings.Contains(g.Name, u) {
						c.Fail("cluster-character-never-reported|"+pol.name, map[string]interface{}{"handler_was_given": g.Name, "unknown_characters_of_the_cluster": w.Unknown})
						break
					}
				}
				if (w.Arg == nil) != (g.Arg == nil) || (w.Arg != nil && *w.Arg != *g.Arg) {
					c.Fail("handler-inline-argument|"+pol.name, map[string]interface{}{"want": w.Arg, "got": g.Arg})
				}
				if !sameStrings(w.Tail, g.Tail) {
					c.Fail("handler-remaining-arguments|"+pol.name, map[string]interface{}{"want": w.Tail, "got": g.Tail})
				}
			}
		}
		if res.Fault != nil || res.Grey {
			return
		}
		if rr.Err != nil {
			if pol.name != "fail" {
				c.Fail("parse-does-not-continue|"+pol.name+"|"+errType(rr.Err), fmt.Sprint(rr.Err))
			}
			return
		}
		if pol.name != "fail" && (len(res.HandlerCalls) > 0 || pol.opts&flags.IgnoreUnknown != 0) {
			c.Hit("continued-after-unknown")
		}
		if !sameStrings(rr.Rest, res.Rest) {
			c.Fail("remaining-arguments|"+pol.name, map[string]interface{}{"want": res.Rest, "got": rr.Rest})
		}
		if !sameStrings(b.ActiveChain(), chainNames(res.Chain)) { // (also on a parser that selected other commands before)
			c.Fail("context-after-unknown|"+pol.name, map[string]interface{}{"want": chainNames(res.Chain), "got": b.ActiveChain()})
		}
		compareOptionValues(c, b, cfg, res, "continued-parse-")
	}
	explore.Register(&explore.Check{
		ID:         "C07",
		Level:      "model_checking",
		ShardDepth: 5,
		Body:       body,
		Rule: "declaration with case-sensitive, namespaced and non-ASCII names and options that exist only in sibling / deeper commands; 12 policies (fail, fail+PassDoubleDash, fail+HelpFlag (with --help among the tokens), IgnoreUnknown, IgnoreUnknown+PassAfterNonOption, handler returning the arguments unchanged / dropping the next - each of these two also on a parser with PassDoubleDash, where the -- terminator is one more token of the alphabet and belongs to the not-yet-consumed arguments the handler is given / consuming all of them (nil slice) / " +
			"inserting a token / returning an error) x {tags, API} x {fresh parser, parser that already parsed a vector selecting add/deep, selecting rm} x every sequence of <= 4 units (3 for the API build, the reused-parser and the argument-rewriting handler variants; thorough: one more for the fail and IgnoreUnknown policies, 4 for the rest) over 12 valid tokens and 24 near misses (incl. the bare namespace prefix of a group whose option has only a short name) (case flips, names containing % or a NUL character, an unknown -<digits> token while an int positional is pending, prefixes, one character dropped/added/changed, " +
			"namespace missing/doubled/case-changed, unknown character at either end of a cluster, two unknown characters in one cluster, inline arguments, a neighbouring non-ASCII letter); beside that: options of a struct field excluded with no-flag and an option name prefixed with the parser's own Namespace are unknown; namespaces set on the parser and on commands (all 8 subsets of {parser, command, sub-subcommand} carrying one) x 3 command paths x 4 options x all 16 prefix spellings over {app, ad, dp, g} x {fail, IgnoreUnknown}: exactly the spelling with the namespaces of all enclosing commands and groups is defined; oracle = CLM scope tables and handler call log",
		Assumptions:  []string{"IgnoreUnknown and a handler on one parser are not combined: the statement gives each policy its own sentence and does not rank them", "the ErrUnknownFlag message quotes (`name') the undefined name (for a cluster: the first letter naming nothing) or the name part of the token it stands in", "the name passed to the handler for a multi-character cluster is not asserted beyond: it mentions every character of the cluster, from the first unknown one on, that names no option in scope", "values of flags that precede an unknown character inside one cluster are not asserted"},
		RequiredHits: []string{"unknown-rejected", "handler-called", "continued-after-unknown", "after-earlier-parse"},
		Bound:        [2]string{"unit sequences <= 4", "unit sequences <= 5"},
		BudgetS:      [2]int{170, 1500},
	})
}

func c07Class(tok string) string {
	switch {
	case strings.HasPrefix(tok, "--"):
		return "long"
	case len([]rune(tok)) > 2:
		return "cluster"
	}
	return "short"
}

// c07Excluded: names that are not defined although something in the declaration spells them:
// the options of a struct-typed field excluded with no-flag, and a top-level option's name prefixed with parser.Namespace.
func c07Excluded(c *explore.Ctx, opts flags.Options) {
	type inner struct {
		Xx bool `long:"xx" short:"x"`
	}
	var o struct {
		Verbose bool   `short:"v" long:"verbose"`
		Skip    inner  `no-flag:"yes"`
		SkipP   *inner `no-flag:"yes"`
	}
	which := c.Choose(4)
	tok := []string{"--xx", "-x", "--ext.verbose", "--verbose"}[which]
	p := flags.NewParser(&o, opts)
	p.Namespace = "ext"
	var rest []string
	var err error
	func() {
		defer func() {
			if r := recover(); r != nil {
				c.Fail("panic|"+explore.PanicSite(), fmt.Sprint(r))
			}
		}()
		rest, err = p.ParseArgs([]string{tok, "w"})
	}()
	if c.Failed() {
		return
	}
	c.Hit("excluded-names")
	fe, _ := err.(*flags.Error)
	switch {
	case which == 3:
		if err != nil || !o.Verbose {
			c.Fail("known-option-reported-unknown|parser-namespace", fmt.Sprint(err))
		}
	case opts&flags.IgnoreUnknown != 0:
		if err != nil || len(rest) != 2 || rest[0] != tok || o.Skip.Xx || o.Verbose {
			c.Fail("unknown-option-accepted|excluded|"+tok, map[string]interface{}{"error": fmt.Sprint(err), "rest": rest})
		}
	default:
		if fe == nil || fe.Type != flags.ErrUnknownFlag {
			c.Fail("unknown-option-accepted|excluded|"+tok, map[string]interface{}{"error": fmt.Sprint(err), "rest": rest})
		}
	}
}

// c07Namespaces: a namespace set on the parser or on a command prefixes the long names of everything below it, across
// command boundaries; every other spelling of the name is unknown.
func c07Namespaces(c *explore.Ctx) {
	type deepT struct {
		Depth int `long:"depth"`
	}
	type addT struct {
		Force bool `long:"force"`
		G     struct {
			Opt string `long:"opt"`
		} `group:"G" namespace:"g"`
	}
	type topT struct {
		Verbose bool `long:"verbose"`
	}
	mask := c.Choose(8)
	pathI := c.Choose(3)
	optI := c.Choose(4)
	spelled := c.Choose(16)
	ignore := c.Bool()
	var top topT
	var add addT
	var deep deepT
	opts := flags.None
	if ignore {
		opts = flags.IgnoreUnknown
	}
	p := flags.NewNamedParser("app", opts)
	p.SubcommandsOptional = true
	if _, err := p.AddGroup("Top", "", &top); err != nil {
		c.Fail("setup-error", err.Error())
		return
	}
	ca, err := p.AddCommand("add", "", "", &add)
	if err != nil {
		c.Fail("setup-error", err.Error())
		return
	}
	ca.SubcommandsOptional = true
	cd, err := ca.AddCommand("deep", "", "", &deep)
	if err != nil {
		c.Fail("setup-error", err.Error())
		return
	}
	var nsP, nsA, nsD []string
	if mask&1 != 0 {
		p.Namespace = "app"
		nsP = []string{"app"}
	}
	if mask&2 != 0 {
		ca.Namespace = "ad"
		nsA = []string{"ad"}
	}
	if mask&4 != 0 {
		cd.Namespace = "dp"
		nsD = []string{"dp"}
	}
	cat := func(parts ...[]string) []string {
		var out []string
		for _, x := range parts {
			out = append(out, x...)
		}
		return out
	}
	name := []string{"verbose", "force", "opt", "depth"}[optI]
	want := [][]string{nsP, cat(nsP, nsA), cat(nsP, nsA, []string{"g"}), cat(nsP, nsA, nsD)}[optI]
	inScope := [][]bool{{true, false, false, false}, {true, true, true, false}, {true, true, true, true}}[pathI][optI]
	var given []string
	for i, w := range []string{"app", "ad", "dp", "g"} {
		if spelled&(1<<uint(i)) != 0 {
			given = append(given, w)
		}
	}
	tok := "--" + strings.Join(append(append([]string{}, given...), name), ".")
	if optI >= 2 {
		tok += "=1"
	}
	argv := append(append([]string{}, [][]string{nil, {"add"}, {"add", "deep"}}[pathI]...), tok, "w")
	defined := inScope && sameStrings(given, want)
	c.Describe(func() interface{} {
		return map[string]interface{}{"scenario": "namespaces on the parser and on commands", "parser.Namespace": strings.Join(nsP, ""), "add.Namespace": strings.Join(nsA, ""), "deep.Namespace": strings.Join(nsD, ""),
			"group_G_of_add": "namespace g", "argv": argv, "IgnoreUnknown": ignore, "name_is_defined_here": defined}
	})
	var rest []string
	func() {
		defer func() {
			if r := recover(); r != nil {
				c.Fail("panic|"+explore.PanicSite(), fmt.Sprint(r))
			}
		}()
		rest, err = p.ParseArgs(argv)
	}()
	if c.Failed() {
		return
	}
	c.Hit("command-namespaces")
	set := []bool{top.Verbose, add.Force, add.G.Opt != "", deep.Depth != 0}[optI]
	fe, _ := err.(*flags.Error)
	c.Outcome("namespaces", errType(err), fmt.Sprint(defined), fmt.Sprint(set))
	switch {
	case defined:
		if err != nil || !set || !sameStrings(rest, []string{"w"}) {
			c.Fail("known-option-reported-unknown|command-namespace", map[string]interface{}{"error": fmt.Sprint(err), "rest": rest, "stored": set})
		}
	case ignore:
		if err != nil || set || !sameStrings(rest, []string{tok, "w"}) {
			c.Fail("unknown-option-accepted|ignore|namespace-spelling", map[string]interface{}{"error": fmt.Sprint(err), "rest": rest, "stored": set})
		}
	default:
		if fe == nil || fe.Type != flags.ErrUnknownFlag || set {
			c.Fail("unknown-option-accepted|fail|namespace-spelling", map[string]interface{}{"error": fmt.Sprint(err), "rest": rest, "stored": set})
		}
	}
}
