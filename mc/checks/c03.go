package checks

import (
	"fmt"
	"strings"

	flags "github.com/jessevdk/go-flags"

	"verif/mc/decl"
	"verif/mc/explore"
	"verif/mc/ref"
)

// C03 — unconsumed arguments are conserved, in order.

func c03Decl(i int) *decl.Decl {
	verbose := &decl.Opt{Field: "Verbose", Short: "v", Long: "verbose", Type: decl.TBools}
	str := &decl.Opt{Field: "Str", Short: "s", Long: "str", Type: decl.TString}
	onoff := &decl.Opt{Field: "Color", Long: "color", Type: decl.TOnOff} // bool-kinded, but takes an argument
	top := &decl.Cmd{Name: "app", Opts: []*decl.Opt{verbose, str, onoff}}
	pa := func(n string, t *decl.Type) *decl.PosArg { return &decl.PosArg{Field: n, Type: t} }
	cmd := func() *decl.Cmd {
		return &decl.Cmd{Field: "Cmd", Name: "cmd", Exec: true, Opts: []*decl.Opt{{Field: "C", Short: "c", Long: "cflag", Type: decl.TBool}}}
	}
	switch i {
	case 0:
	case 1:
		top.Pos = []*decl.PosArg{pa("A", decl.TString)}
	case 2:
		top.Pos = []*decl.PosArg{pa("A", decl.TString), pa("B", decl.TString)}
	case 3:
		top.Pos = []*decl.PosArg{pa("A", decl.TString), pa("Rest", decl.TStrings)}
	case 4:
		top.Cmds = []*decl.Cmd{cmd()}
	case 5:
		c := cmd()
		c.Pos = []*decl.PosArg{pa("First", decl.TString), pa("Rest", decl.TStrings)}
		c.PosRequired = "yes"
		top.Cmds = []*decl.Cmd{c}
	case 6:
		top.Cmds = []*decl.Cmd{cmd()}
		top.SubOptional = true
	case 7:
		top.Pos = []*decl.PosArg{pa("A", decl.TString)}
		top.Cmds = []*decl.Cmd{cmd()}
		top.SubOptional = true
	case 8:
		c := cmd()
		c.SubOptional = true
		c.Cmds = []*decl.Cmd{{Field: "Sub", Name: "sub", Exec: true}}
		top.Cmds = []*decl.Cmd{c}
	case 9:
		top.Pos = []*decl.PosArg{pa("A", decl.TInt)}
	}
	return (&decl.Decl{Top: top}).Finish()
}

const c03NDecl = 10

var c03Units = [][]string{
	{""}, {"-"}, {"--"}, {"---x"}, {"-u"}, {"--unk=1"}, {"-vu"}, {"w"}, {"z"}, {"-v"}, {"-s", "val"}, {"cmd"}, {"sub"}, {"7"}, {"--color", "on"}, {`"q"`}, {"--verb"}, {"s-1"}, {"-c"},
}

func isSubsequence(sub, full []string) bool {
	j := 0
	for _, t := range full {
		if j < len(sub) && sub[j] == t {
			j++
		}
	}
	return j == len(sub)
}

func init() {
	optSets := []flags.Options{}
	for m := 0; m < 8; m++ {
		var o flags.Options
		if m&1 != 0 {
			o |= flags.PassDoubleDash
		}
		if m&2 != 0 {
			o |= flags.PassAfterNonOption
		}
		if m&4 != 0 {
			o |= flags.IgnoreUnknown
		}
		optSets = append(optSets, o)
	}
	cache := map[string]*decl.Decl{}
	body := func(c *explore.Ctx) {
		di := c.Choose(c03NDecl)
		oi := c.Choose(len(optSets))
		hasExec := di >= 4 && di <= 8
		mode := 0 // 0 tags, 1 api+Execute, 2 api+CommandHandler, 3 api with the options handed over by (*Group).AddOption
		if hasExec {
			mode = 1 + c.Choose(3)
		} else {
			mode = c.Choose(3)
			if mode == 2 {
				mode = 3
			}
		}
		maxDepth := 4
		if c.Thorough {
			maxDepth = 5
		}
		if mode == 3 {
			maxDepth--
		}
		// the same parser has been used before: it parsed a line that selected cmd (and sub) and used cmd's own flag; the program
		// re-uses it as it is (these declarations have no required option, so nothing else of that parse can matter)
		used := false
		if hasExec {
			used = c.Bool()
			if used {
				maxDepth--
			}
		}
		n := c.Choose(maxDepth + 2)
		var argv []string
		if n == maxDepth+1 {
			// beyond the depth bound, thin probes: a head unit, then one token repeated many times (batches after -- / a non-option)
			head := c03Units[c.Choose(len(c03Units))]
			tail := c03Units[c.Choose(len(c03Units))]
			reps := []int{7, 8, 9, 17}[c.Choose(4)]
			argv = append(argv, "w")
			argv = append(argv, head...)
			for i := 0; i < reps; i++ {
				argv = append(argv, tail...)
			}
			c.Hit("long-run")
		} else {
			for i := 0; i < n; i++ {
				argv = append(argv, c03Units[c.Choose(len(c03Units))]...)
			}
		}
		key := fmt.Sprintf("d%d/o%d", di, oi)
		d := cache[key]
		if d == nil {
			d = c03Decl(di)
			d.Options = optSets[oi]
			cache[key] = d
		}
		c.Describe(func() interface{} {
			return map[string]interface{}{"declaration": di, "options": fmt.Sprintf("PassDoubleDash=%v PassAfterNonOption=%v IgnoreUnknown=%v", oi&1 != 0, oi&2 != 0, oi&4 != 0), "mode": []string{"tags", "api+Execute", "api+CommandHandler", "api, options added with AddOption"}[mode], "argv": argv, "parser_used_before": used}
		})
		cfg := &ref.Config{D: d}
		res := ref.Run(cfg, argv)
		if msg := res.CheckInvariants(argv); msg != "" {
			c.Fail("model-invariant", msg)
			return
		}
		recordStates(c, key, res, nil)
		var b *decl.Built
		if mode == 0 {
			b = d.BuildTags()
		} else if mode == 3 {
			c.Hit("options-added-with-AddOption")
			b = d.BuildAdded()
		} else {
			b = d.BuildAPI()
		}
		if b.Err != nil {
			c.Fail("setup-error", b.Err.Error())
			return
		}
		if used {
			c.Hit("parser-used-before")
			w := []string{"cmd", "-c"}
			switch di {
			case 5:
				w = append(w, "a")
			case 7:
				w = []string{"x", "cmd", "-c"} // the first plain word fills the parser's own positional
			case 8:
				w = append(w, "sub")
			}
			wr := runParser(b, cfg, w, runOpts{CommandHandler: mode == 2})
			if wr.Err != nil || wr.Panic != nil {
				c.Fail("earlier-parse-rejected", fmt.Sprint(w, wr.Err, wr.Panic))
				return
			}
			rezero(b)
		}
		rr := runParser(b, cfg, argv, runOpts{CommandHandler: mode == 2})
		if rr.Panic != nil {
			c.Fail("panic|"+rr.PanicSite, fmt.Sprint(rr.Panic))
			return
		}
		c.Outcome(key, errType(rr.Err), strings.Join(rr.Rest, "\x01"))
		if res.Fault == nil && rr.Err != nil && !res.Grey {
			// every token of this alphabet that the model lets through is, by the statement, passed through or consumed:
			// a rejection means a token was not handled as the pass-through rules say
			c.Fail("passed-through-token-rejected|"+errType(rr.Err), fmt.Sprint(rr.Err))
			return
		}
		if res.Fault != nil && res.Fault.Raw && res.Fault.Type == 0 && !res.Grey && rr.Err == nil {
			// (also after -- and for an ignored unknown option that lands on a typed positional)
			c.Fail("unconvertible-token-accepted", map[string]interface{}{"token": res.Fault.Token, "rest": rr.Rest})
			return
		}
		if rr.Err != nil || res.Fault != nil {
			c.Hit("rejected")
			return
		}
		c.Hit("compared")
		if len(res.Rest) > 0 {
			c.Hit("nonempty-rest")
		}
		class := ""
		switch {
		case oi&1 != 0 && contains(argv, "--"):
			class = "terminator"
		case oi&4 != 0 && (contains(argv, "-u") || contains(argv, "--unk=1") || contains(argv, "-vu") || contains(argv, "--verb") || contains(argv, "-c")):
			class = "ignored-unknown"
		case oi&2 != 0:
			class = "pass-after-non-option"
		default:
			class = "plain"
		}
		c.Hit("class:" + class)
		if !isSubsequence(rr.Rest, argv) {
			c.Fail("rest-not-a-subsequence|"+class, map[string]interface{}{"rest": rr.Rest})
		}
		if !sameStrings(rr.Rest, res.Rest) {
			c.Fail("rest-differs|"+class, map[string]interface{}{"want": res.Rest, "got": rr.Rest})
		}
		comparePositionals(c, b, res, "passed-through-")
		// what the executed command saw
		if hasExec {
			var calls []decl.ExecCall
			if mode == 2 {
				calls = rr.CmdCalls
			} else {
				calls = b.ExecLog
			}
			if len(calls) == 1 {
				c.Hit("exec-args-compared")
				if !sameStrings(calls[0].Args, res.Rest) {
					c.Fail("command-args-differ|"+class, map[string]interface{}{"want": res.Rest, "got": calls[0].Args})
				}
			}
		}
	}
	explore.Register(&explore.Check{
		ID:         "C03",
		Level:      "model_checking",
		ShardDepth: 5,
		Body:       body,
		Rule: "10 declarations (positional layouts none/1/2/1+rest/int, required or optional or nested executable commands with own positionals) x all 8 subsets of {PassDoubleDash, PassAfterNonOption, IgnoreUnknown} " +
			"x {struct tags | API+Execute | API+CommandHandler | API with every option handed over by (*Group).AddOption, sequences one unit shorter} x {fresh parser; for the declarations with commands also a parser that has already parsed [cmd -c ...] and is re-used as it is, sequences one unit shorter} x every sequence of <= 4 (quick) / <= 5 (thorough) units over 19 units (the command's own flag -c, known only after cmd, '', -, --, ---x, a word whose second character is a dash (s-1), unknown short/long/cluster, an unknown long name that is a proper prefix of a declared one, repeated plain words, known flag, option+value, a bool-kinded Unmarshaler option + value, a token that is a quoted Go literal, command words, a number), plus beyond that bound [w, unit, unit' x {7,8,9,17}]; " +
			"oracle = CLM remaining arguments, plus (independent of the CLM) remaining arguments must be a subsequence of argv; also compared with what Execute / CommandHandler received and with the positional fields",
		Assumptions:  []string{"only vectors that both the model and the parser accept are compared (rejections belong to C04/C07/C08)"},
		RequiredHits: []string{"compared", "nonempty-rest", "class:terminator", "class:ignored-unknown", "class:pass-after-non-option", "exec-args-compared", "parser-used-before", "options-added-with-AddOption"},
		Bound:        [2]string{"all unit sequences of length <= 4", "all unit sequences of length <= 5"},
		BudgetS:      [2]int{170, 1500},
	})
}

func contains(a []string, s string) bool {
	for _, x := range a {
		if x == s {
			return true
		}
	}
	return false
}
