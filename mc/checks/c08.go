package checks

import (
	"fmt"
	"strings"

	flags "github.com/jessevdk/go-flags"

	"verif/mc/decl"
	"verif/mc/explore"
	"verif/mc/ref"
)

// C08 — command selection and option scoping.

// treeShapes lists every parent array of a rooted command tree with 1..max
// commands below the parser and depth <= 3 (parent -1 = the parser).
func treeShapes(max int) [][]int {
	var out [][]int
	var rec func(par []int)
	depth := func(par []int, i int) int {
		d := 1
		for p := par[i]; p >= 0; p = par[p] {
			d++
		}
		return d
	}
	rec = func(par []int) {
		if len(par) > 0 {
			out = append(out, append([]int{}, par...))
		}
		if len(par) == max {
			return
		}
		for p := -1; p < len(par); p++ {
			np := append(append([]int{}, par...), p)
			if depth(np, len(np)-1) <= 3 {
				rec(np)
			}
		}
	}
	rec(nil)
	return out
}

type treeDecl struct {
	d     *decl.Decl
	cmds  []*decl.Cmd
	units [][]string
	key   string
}

// buildTree makes the declaration: every node has one counter flag; aliasMask
// gives nodes an alias; optMask marks nodes (bit 0 = parser) subcommands-optional;
// clash = 0 none, else node (clash-1)/2 uses its parent's (even) or grandparent's (odd) flag letter.
// sameName: 0 none, else the last node takes the name of node 0 when they are not siblings.
func buildTree(par []int, aliasMask, optMask, clash int, sameName bool, exec bool, reqNode, posNode int, hiddenMask int, lateGroup bool, envInt bool, variant int) *treeDecl {
	n := len(par)
	letters := "abcd"
	top := &decl.Cmd{Name: "app", Opts: []*decl.Opt{{Field: "P", Short: "p", Long: "pflag", Type: decl.TBools}}}
	top.SubOptional = optMask&1 != 0
	if envInt {
		// an int option whose value may come from the environment
		top.Opts = append(top.Opts, &decl.Opt{Field: "E", Long: "envint", Type: decl.TInts, Env: "C09_ENV", EnvDelim: ","})
	}
	cmds := make([]*decl.Cmd, n)
	flagLetter := make([]string, n)
	for i := 0; i < n; i++ {
		flagLetter[i] = string(letters[i])
	}
	if clash > 0 {
		node, up := (clash-1)/2, (clash-1)%2
		if node < n {
			anc := par[node]
			if up == 1 && anc >= 0 {
				anc = par[anc]
			}
			if up == 1 && par[node] < 0 {
				return nil // no grandparent
			}
			if anc < 0 {
				flagLetter[node] = "p"
			} else {
				flagLetter[node] = flagLetter[anc]
			}
		} else {
			return nil
		}
	}
	for i := 0; i < n; i++ {
		name := "k" + string(letters[i])
		if sameName && i == n-1 {
			if i == 0 || par[i] == par[0] {
				return nil
			}
			name = "ka"
		}
		c := &decl.Cmd{Field: "C" + strings.ToUpper(string(letters[i])), Name: name, Exec: exec,
			Opts: []*decl.Opt{{Field: "F", Short: flagLetter[i], Long: "flag" + string(letters[i]), Type: decl.TBools}}}
		if aliasMask&(1<<uint(i)) != 0 || (variant == 1 && i == 0) {
			c.Aliases = []string{"x" + string(letters[i])} // (under PassAfterNonOption the first command always has an alias: alias and name stop the pass-through alike)
		}
		c.SubOptional = optMask&(1<<uint(i+1)) != 0
		c.Hidden = hiddenMask&(1<<uint(i)) != 0 // a hidden command is selected, scoped and required like any other
		cmds[i] = c
		if par[i] < 0 {
			top.Cmds = append(top.Cmds, c)
		} else {
			cmds[par[i]].Cmds = append(cmds[par[i]].Cmds, c)
		}
	}
	if reqNode > n || posNode > n {
		return nil
	}
	if reqNode > 0 {
		cmds[reqNode-1].Opts[0].Required = "yes"
		if reqNode%2 == 0 {
			cmds[reqNode-1].Opts[0].Hidden = "yes" // hidden from help, required all the same
		}
	}
	if posNode > 0 {
		// odd nodes get an int as first positional so that a word can fail to convert
		ft := decl.TString
		if posNode%2 == 1 {
			ft = decl.TInt
		}
		cmds[posNode-1].Pos = []*decl.PosArg{{Field: "First", Type: ft}, {Field: "Rest", Type: decl.TStrings}}
		cmds[posNode-1].PosRequired = "yes"
		if posNode == 3 {
			cmds[posNode-1].PosRequired = "" // the third node's int positional is optional: a conversion fault is then the only fault
		}
	}
	for i, c := range cmds {
		if c.SubOptional && len(c.Cmds) == 0 {
			_ = i
			return nil // the mark only means something on inner nodes
		}
	}
	if lateGroup {
		// the parser's own flag lives in a group (with the API build it is added after the commands and after some use)
		top.Groups = []*decl.Group{{Field: "PG", Name: "Parser Group", Opts: top.Opts}}
		top.Opts = nil
	}
	if variant == 2 {
		// an argument-taking option of the parser: its separate argument may be spelled like a command
		top.Opts = append(top.Opts, &decl.Opt{Field: "Out", Short: "o", Long: "out", Type: decl.TString})
	}
	dd := &decl.Decl{Top: top}
	if variant == 1 {
		dd.Options = flags.PassAfterNonOption
	}
	if variant == 3 {
		dd.Options = flags.HelpFlag
	}
	d := dd.Finish()
	td := &treeDecl{d: d, cmds: cmds}
	seen := map[string]bool{}
	add := func(u ...string) {
		k := strings.Join(u, " ")
		if !seen[k] {
			seen[k] = true
			td.units = append(td.units, u)
		}
	}
	for _, c := range cmds {
		add(c.Name)
		for _, a := range c.Aliases {
			add(a)
		}
	}
	add("-p")
	for i := range cmds {
		add("-" + flagLetter[i])
	}
	add("--flag" + string(letters[n-1]))
	add("--pflag") // the parser's flag by its long name: in scope everywhere, also where its letter is taken by a command's flag
	add("zzz")
	if variant == 2 {
		add("-o", cmds[0].Name)
		add("--out", cmds[n-1].Name)
	}
	if variant == 3 {
		add("--help")
	}
	return td
}

func init() {
	shapes := append(treeShapes(4), []int{-1, 0, 1, 2}) // plus the one chain of depth 4
	cache := map[string]*treeDecl{}
	buildX = func(c *explore.Ctx, exec bool, extras bool) (*treeDecl, string, bool) {
		si := c.Choose(len(shapes))
		par := shapes[si]
		n := len(par)
		aliasChoices := []int{0}
		for i := 0; i < n; i++ {
			aliasChoices = append(aliasChoices, 1<<uint(i))
		}
		for i := 0; i < n; i++ {
			for j := i + 1; j < n; j++ {
				aliasChoices = append(aliasChoices, 1<<uint(i)|1<<uint(j))
			}
		}
		am := aliasChoices[c.Deviate(len(aliasChoices))]
		om := c.Deviate(1 << uint(n+1))
		cl := c.Deviate(1 + 2*n)
		sn := c.Deviate(2) == 1
		hm := c.Deviate(1 << uint(n))
		rq, ps := 0, 0
		if extras {
			rq = c.Choose(n + 1)
			ps = c.Choose(n + 1)
		}
		if c08Variant == 4 {
			// on the re-used parser every inner level's subcommands are optional: a line may stop above what the earlier line selected
			om = 1
			for _, pp := range par {
				if pp >= 0 {
					om |= 1 << uint(pp+1)
				}
			}
		}
		c08Deviated = am != 0 || om != 0 || cl != 0 || sn || hm != 0
		key := fmt.Sprintf("s%d/a%d/o%d/c%d/n%v/x%v/r%d/p%d/h%d/v%d", si, am, om, cl, sn, exec, rq, ps, hm, c08Variant)
		td, ok := cache[key]
		if !ok {
			if len(cache) > 200 {
				cache = map[string]*treeDecl{}
			}
			td = buildTree(par, am, om, cl, sn, exec, rq, ps, hm, c08LateGroup, false, c08Variant)
			cache[key] = td
		}
		return td, key, td != nil
	}
	build := func(c *explore.Ctx, exec bool) (*treeDecl, string, bool) { return buildX(c, exec, false) }
	c08build = build

	body := func(c *explore.Ctx) {
		mode := c.Choose(4) // 0 struct tags, 1 API, 2 API with executable (Commander) commands, 3 API with the parser's flag in a group added late
		c08LateGroup = mode == 3
		// 1: PassAfterNonOption is set; 2: the parser has a string option whose separate argument is spelled like a command name
		// 3: HelpFlag is set and --help is among the tokens: the chain named before the request stays the active one
		// 4: the same parser has already parsed the full path to its last command and is re-used as it is (no option of these
		//    trees is required, so nothing of that parse may matter: the active chain read back afterwards is the one this line names)
		// 5: a CommandHandler is installed (it runs instead of Execute after a successful parse and changes nothing else)
		c08Variant = c.Deviate(6)
		withHandler := c08Variant == 5
		reused := c08Variant == 4
		if reused && mode == 3 {
			c.Skip()
		}
		// thorough: sequences of 4 tokens go with the plain trees only (no declaration deviation), sequences of <= 3 with <= 2 deviations
		deep := c.Thorough && c.Bool()
		td, key, ok := build(c, mode == 2)
		if deep && (c08Variant != 0 || c08Deviated) {
			c.Skip()
		}
		if c08Variant != 0 {
			c.Hit("variant")
		}
		if mode == 3 {
			key += "/late"
		}
		api := mode != 0
		if !ok {
			c.Skip()
		}
		maxDepth := 3
		if deep {
			maxDepth = 4
		}
		n := c.Choose(maxDepth + 2)
		if deep && n < 4 {
			c.Skip() // the shorter sequences are covered by the other family
		}
		var argv []string
		if n == maxDepth+1 {
			// beyond the depth bound, a thin probe: the full path to one node, one unit before it and one after it
			node := td.cmds[c.Choose(len(td.cmds))]
			var path []string
			for x := node; x != nil && x.Parent != nil; x = x.Parent {
				path = append([]string{x.Name}, path...)
			}
			argv = append(argv, td.units[c.Choose(len(td.units))]...)
			argv = append(argv, path...)
			argv = append(argv, td.units[c.Choose(len(td.units))]...)
			c.Hit("deep-path-probe")
		} else {
			for i := 0; i < n; i++ {
				argv = append(argv, td.units[c.Choose(len(td.units))]...)
			}
		}
		c.Describe(func() interface{} {
			return map[string]interface{}{"tree": describeTree(td.d.Top), "api_path": api, "argv": argv, "parser_used_before_and_left_as_it_is": reused, "command_handler_installed": withHandler}
		})
		cfg := &ref.Config{D: td.d}
		res := ref.Run(cfg, argv)
		if msg := res.CheckInvariants(argv); msg != "" {
			c.Fail("model-invariant", msg)
			return
		}
		recordStates(c, key, res, nil)
		var b *decl.Built
		switch {
		case mode == 3:
			b = td.d.BuildAPIWith(func(hb *decl.Built) {
				// use the half-built parser: select every command once
				for _, cm := range td.cmds {
					var path []string
					for x := cm; x != nil && x.Parent != nil; x = x.Parent {
						path = append([]string{x.Name}, path...)
					}
					hb.Parser.ParseArgs(path)
				}
				for _, fc := range hb.Cmds {
					fc.Active = nil // the program resets every selection before the real parse
				}
				rezero(hb)
			})
		case api:
			b = td.d.BuildAPI()
		default:
			b = td.d.BuildTags()
		}
		if b.Err != nil {
			c.Fail("setup-error", b.Err.Error())
			return
		}
		if mode == 1 && n == 0 && c08Variant == 0 {
			c08FailedAdd(c, td)
		}
		if reused {
			c.Hit("parser-re-used")
			var path []string
			for x := td.cmds[len(td.cmds)-1]; x != nil && x.Parent != nil; x = x.Parent {
				path = append([]string{x.Name}, path...)
			}
			if wr := runParser(b, cfg, path, runOpts{}); wr.Panic != nil {
				c.Fail("panic|"+wr.PanicSite, fmt.Sprint("earlier parse ", path, ": ", wr.Panic))
				return
			}
			rezero(b)
		}
		rr := runParser(b, cfg, argv, runOpts{CommandHandler: withHandler})
		if rr.Panic != nil {
			c.Fail("panic|"+rr.PanicSite, fmt.Sprint(rr.Panic))
			return
		}
		if withHandler {
			c.Hit("command-handler-installed")
			if res.Fault != nil && !res.Grey && len(rr.CmdCalls) != 0 {
				c.Fail("handler-ran-on-a-faulty-line|"+res.Fault.Type.String(), rr.CmdCalls)
			}
		}
		got := b.ActiveChain() // (on a re-used parser too: the chain is what the command words of this line select, no more)
		c.Outcome(key, errType(rr.Err), strings.Join(got, "/"))
		if res.Fault == nil {
			c.Hit("model-clean")
			if rr.Err != nil {
				c.Fail("valid-vector-rejected|"+errType(rr.Err), fmt.Sprint(rr.Err))
				return
			}
			if !sameStrings(got, chainNames(res.Chain)) {
				c.Fail("active-chain-differs", map[string]interface{}{"want": chainNames(res.Chain), "got": got})
			}
			if len(res.Chain) >= 2 {
				c.Hit("chain-depth>=2")
			}
			compareOptionValues(c, b, cfg, res, "scoping-")
			if !sameStrings(rr.Rest, res.Rest) {
				c.Fail("plain-argument-handling", map[string]interface{}{"want": res.Rest, "got": rr.Rest})
			}
			return
		}
		switch res.Fault.Type {
		case flags.ErrHelp:
			c.Hit("help-request")
			if fe, ok := rr.Err.(*flags.Error); !ok || fe.Type != flags.ErrHelp {
				c.Fail("help-request-not-answered", fmt.Sprint(rr.Err))
			} else if !sameStrings(got, chainNames(res.Chain)) {
				c.Fail("active-chain-differs|after-help-request", map[string]interface{}{"want": chainNames(res.Chain), "got": got})
			}
		case flags.ErrCommandRequired, flags.ErrUnknownCommand:
			c.Hit("command-fault")
			if ok, why := faultMatches(rr.Err, res.Fault); !ok {
				c.Fail("command-diagnosis|want-"+res.Fault.Type.String(), why)
			}
		default:
			c.Hit("other-fault")
			if rr.Err == nil && !res.Grey {
				c.Fail("faulty-vector-accepted|"+res.Fault.Type.String(), map[string]interface{}{"rest": rr.Rest})
			}
			if fe, ok := rr.Err.(*flags.Error); ok && (fe.Type == flags.ErrCommandRequired || fe.Type == flags.ErrUnknownCommand) {
				c.Fail("command-diagnosis|unexpected-"+fe.Type.String(), fe.Message)
			}
		}
	}
	explore.Register(&explore.Check{
		ID:         "C08",
		Level:      "model_checking",
		ShardDepth: 6,
		Body:       body,
		DevBound: func(th bool) int {
			if th {
				return 2
			}
			return 1
		},
		Rule: "every command tree with <= 4 commands and depth <= 3 (all 32 parent arrays) plus the chain of depth 4, one counter flag per node; deviations from the plain tree (bounded: 1 quick / 2 thorough): PassAfterNonOption set, a string option of the parser given a command name as its separate argument, HelpFlag set with --help among the tokens (the chain named so far stays active), a command whose AddCommand failed (must not exist), a parser that has already parsed the path to its last command and is re-used as it is (subcommands optional at every level, so that a line may end above the earlier selection), a CommandHandler installed (the diagnoses stay the same and it does not run on a faulty line), aliases on <= 2 nodes, " +
			"subcommands-optional on any subset of inner nodes incl. the parser, one node's flag letter clashing with its parent's or grandparent's, a deeper command reusing a top-level command's name, any subset of commands hidden; " +
			"x {struct tags, API, API with executable commands, API where the parser's flag sits in a group that is added after the commands and after a parse that selected each of them} x every sequence of <= 3 tokens (thorough: 4 tokens on the trees without deviation, all four build modes) over all names, aliases, every node's flag, one long flag and an unknown word, plus beyond that bound [unit, full path to any node, unit]; oracle = CLM active chain, scoping (which counter was incremented), " +
			"remaining arguments and ErrCommandRequired / ErrUnknownCommand",
		Assumptions:  []string{"deviation-bounded over declaration features, exhaustive over trees and token sequences"},
		RequiredHits: []string{"model-clean", "chain-depth>=2", "command-fault", "other-fault", "parser-re-used", "command-handler-installed"},
		Bound:        [2]string{"token sequences <= 3, <= 1 declaration deviation", "token sequences <= 3 with <= 2 declaration deviations; 4 tokens on trees without deviation"},
		BudgetS:      [2]int{170, 1500},
	})
}

var c08LateGroup bool
var c08Variant int
var c08Deviated bool

var c08build func(c *explore.Ctx, exec bool) (*treeDecl, string, bool)
var buildX func(c *explore.Ctx, exec bool, extras bool) (*treeDecl, string, bool)

func describeTree(c *decl.Cmd) interface{} {
	m := map[string]interface{}{"name": c.Name}
	if len(c.Aliases) > 0 {
		m["aliases"] = c.Aliases
	}
	if c.SubOptional {
		m["subcommands_optional"] = true
	}
	var fl []string
	for _, o := range c.AllOpts() {
		s := "-" + o.Short
		if o.Long != "" {
			s += "/--" + o.LongNS
		}
		if o.IsRequired() {
			s += "(required)"
		}
		fl = append(fl, s)
	}
	m["options"] = fl
	if len(c.Pos) > 0 {
		var ps []string
		for _, a := range c.Pos {
			ps = append(ps, a.ShownName()+":"+a.Type.Name+":"+a.Required)
		}
		m["positional"] = ps
		m["positional_required"] = c.PosRequired
	}
	var subs []interface{}
	for _, cc := range c.Cmds {
		subs = append(subs, describeTree(cc))
	}
	if len(subs) > 0 {
		m["commands"] = subs
	}
	return m
}

// c08FailedAdd: a command whose AddCommand returned an error does not exist: its name is a word like any unknown one.
func c08FailedAdd(c *explore.Ctx, td *treeDecl) {
	type bad struct {
		X bool `short:"xx"` // a short name of two characters: the declaration is rejected
	}
	run := func(add bool, word string) (string, []string) {
		b := td.d.BuildAPI()
		if b.Err != nil {
			return "setup-error", nil
		}
		if add {
			if _, err := b.Parser.AddCommand("zzbad", "", "", &bad{}); err == nil {
				return "harness: the faulty command was accepted", nil
			}
		}
		rr := runParser(b, &ref.Config{D: td.d}, []string{word}, runOpts{})
		if rr.Panic != nil {
			return "panic: " + fmt.Sprint(rr.Panic), nil
		}
		return errType(rr.Err), b.ActiveChain()
	}
	e1, c1 := run(false, "zzbad")
	e2, c2 := run(true, "zzbad")
	c.Hit("failed-AddCommand")
	if e1 != e2 || !sameStrings(c1, c2) {
		c.Fail("rejected-command-exists", map[string]interface{}{"without_the_failed_AddCommand": []interface{}{e1, c1}, "after_it": []interface{}{e2, c2}})
	}
}
