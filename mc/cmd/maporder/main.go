// maporder instruments every map iteration of the go-flags package in /repo:
// it type-checks the current sources, rewrites every `range` over a map-typed
// expression and every reflect.Value.MapKeys call into a call of a generated
// helper that sorts the keys canonically and then applies the permutation a
// hook chooses, and writes the rewritten files plus a `go build -overlay`
// description. /repo itself is not touched.
//
//	maporder <outdir>        (run with the working directory at /repo)
package main

import (
	"bytes"
	"encoding/json"
	"fmt"
	"go/ast"
	"go/build"
	"go/importer"
	"go/parser"
	"go/printer"
	"go/token"
	"go/types"
	"os"
	"path/filepath"
	"strings"
)

const helper = `package flags

import (
	"fmt"
	"reflect"
	"sort"
)

// VerifMapOrderHook, when set, chooses the order in which the keys of a map are
// visited at an instrumented iteration site: it receives the site and the number
// of keys and returns a permutation of 0..n-1 applied to the canonically sorted keys.
// When nil the runtime's own order is kept (the instrumentation is then transparent).
var VerifMapOrderHook func(site string, n int) []int

func verifKeyString(k reflect.Value) string {
	for k.Kind() == reflect.Ptr || k.Kind() == reflect.Interface {
		if k.IsNil() {
			return "<nil>"
		}
		k = k.Elem()
	}
	if k.Kind() == reflect.Struct {
		s := ""
		for i := 0; i < k.NumField(); i++ {
			f := k.Field(i)
			if k.Type().Field(i).PkgPath != "" {
				continue
			}
			switch f.Kind() {
			case reflect.String, reflect.Int, reflect.Int32, reflect.Int64, reflect.Bool, reflect.Uint:
				s += fmt.Sprintf("%v|", f.Interface())
			}
		}
		return s
	}
	return fmt.Sprintf("%v", k.Interface())
}

func verifMapOrder(m reflect.Value, site string) []reflect.Value {
	keys := m.MapKeys()
	if VerifMapOrderHook == nil || len(keys) < 2 {
		return keys
	}
	sort.SliceStable(keys, func(i, j int) bool { return verifKeyString(keys[i]) < verifKeyString(keys[j]) })
	perm := VerifMapOrderHook(site, len(keys))
	out := make([]reflect.Value, len(keys))
	for i, p := range perm {
		out[i] = keys[p]
	}
	return out
}
`

type site struct {
	Name string `json:"name"`
	Pos  string `json:"pos"`
	Kind string `json:"kind"`
}

func zeroPos(n ast.Node) {
	ast.Inspect(n, func(x ast.Node) bool {
		switch v := x.(type) {
		case *ast.Ident:
			v.NamePos = token.NoPos
		case *ast.CallExpr:
			v.Lparen, v.Rparen = token.NoPos, token.NoPos
		case *ast.BasicLit:
			v.ValuePos = token.NoPos
		case *ast.RangeStmt:
			v.For, v.TokPos, v.Range = token.NoPos, token.NoPos, token.NoPos
		case *ast.BlockStmt:
			v.Lbrace, v.Rbrace = token.NoPos, token.NoPos
		case *ast.AssignStmt:
			v.TokPos = token.NoPos
		case *ast.IfStmt:
			v.If = token.NoPos
		case *ast.BranchStmt:
			v.TokPos = token.NoPos
		case *ast.TypeAssertExpr:
			v.Lparen, v.Rparen = token.NoPos, token.NoPos
		case *ast.IndexExpr:
			v.Lbrack, v.Rbrack = token.NoPos, token.NoPos
		case *ast.SelectorExpr:
		case *ast.StarExpr:
			v.Star = token.NoPos
		case *ast.UnaryExpr:
			v.OpPos = token.NoPos
		case *ast.ExprStmt:
		}
		return true
	})
}

func parseStmts(src string) []ast.Stmt {
	f, err := parser.ParseFile(token.NewFileSet(), "", "package p\nfunc _() {\n"+src+"\n}", 0)
	if err != nil {
		panic(fmt.Sprintf("internal: cannot parse generated code: %v\n%s", err, src))
	}
	body := f.Decls[0].(*ast.FuncDecl).Body
	zeroPos(body)
	return body.List
}

func parseExpr(src string) ast.Expr {
	e, err := parser.ParseExpr(src)
	if err != nil {
		panic(fmt.Sprintf("internal: cannot parse generated expression: %v\n%s", err, src))
	}
	zeroPos(e)
	return e
}

func main() {
	if len(os.Args) < 2 {
		fmt.Fprintln(os.Stderr, "usage: maporder <outdir> (cwd = package directory)")
		os.Exit(2)
	}
	outdir := os.Args[1]
	os.MkdirAll(outdir, 0755)
	cwd, _ := os.Getwd()
	pkg, err := build.Default.ImportDir(cwd, 0)
	if err != nil {
		fmt.Fprintln(os.Stderr, "maporder:", err)
		os.Exit(1)
	}
	fset := token.NewFileSet()
	var files []*ast.File
	for _, name := range pkg.GoFiles {
		f, err := parser.ParseFile(fset, filepath.Join(cwd, name), nil, parser.ParseComments)
		if err != nil {
			fmt.Fprintln(os.Stderr, "maporder:", err)
			os.Exit(1)
		}
		files = append(files, f)
	}
	info := &types.Info{Types: map[ast.Expr]types.TypeAndValue{}, Defs: map[*ast.Ident]types.Object{}, Uses: map[*ast.Ident]types.Object{}}
	conf := types.Config{Importer: importer.ForCompiler(fset, "source", nil), Error: func(error) {}}
	tpkg, err := conf.Check(pkg.ImportPath, fset, files, info)
	if err != nil && tpkg == nil {
		fmt.Fprintln(os.Stderr, "maporder: type check:", err)
		os.Exit(1)
	}
	var sites []site
	var skipped []site
	overlay := map[string]string{}
	counter := map[string]int{}
	for fi, f := range files {
		changed := false
		fname := pkg.GoFiles[fi]
		qual := func(p *types.Package) string {
			if p == tpkg {
				return ""
			}
			return p.Name()
		}
		siteName := func(fn string) string {
			counter[fn]++
			return fmt.Sprintf("%s#%d", fn, counter[fn])
		}
		for _, d := range f.Decls {
			fd, ok := d.(*ast.FuncDecl)
			if !ok || fd.Body == nil {
				continue
			}
			fn := fd.Name.Name
			if fd.Recv != nil && len(fd.Recv.List) > 0 {
				var b bytes.Buffer
				printer.Fprint(&b, fset, fd.Recv.List[0].Type)
				fn = "(" + b.String() + ")." + fn
			}
			// 1. x.MapKeys() on a reflect.Value
			ast.Inspect(fd.Body, func(n ast.Node) bool {
				call, ok := n.(*ast.CallExpr)
				if !ok {
					return true
				}
				sel, ok := call.Fun.(*ast.SelectorExpr)
				if !ok || len(call.Args) != 0 {
					return true
				}
				tv, ok := info.Types[sel.X]
				if !ok || tv.Type.String() != "reflect.Value" {
					return true
				}
				switch sel.Sel.Name {
				case "MapKeys":
					s := siteName(fn)
					sites = append(sites, site{s, fset.Position(call.Pos()).String(), "MapKeys"})
					recv := sel.X
					call.Fun = &ast.Ident{Name: "verifMapOrder"}
					call.Args = []ast.Expr{recv, &ast.BasicLit{Kind: token.STRING, Value: fmt.Sprintf("%q", s)}}
					changed = true
				case "MapRange":
					skipped = append(skipped, site{fn, fset.Position(call.Pos()).String(), "MapRange"})
				}
				return true
			})
			// 2. range over a map
			var rewriteBlock func(list []ast.Stmt)
			var visit func(n ast.Node)
			visit = func(n ast.Node) {
				ast.Inspect(n, func(x ast.Node) bool {
					rs, ok := x.(*ast.RangeStmt)
					if !ok {
						return true
					}
					tv, ok := info.Types[rs.X]
					if !ok {
						return true
					}
					mt, ok := tv.Type.Underlying().(*types.Map)
					if !ok {
						return true
					}
					keyIdent, keyOK := rs.Key.(*ast.Ident)
					if rs.Key != nil && !keyOK {
						skipped = append(skipped, site{fn, fset.Position(rs.Pos()).String(), "range with a non-identifier key"})
						return true
					}
					var valIdent *ast.Ident
					if rs.Value != nil {
						vi, ok := rs.Value.(*ast.Ident)
						if !ok {
							skipped = append(skipped, site{fn, fset.Position(rs.Pos()).String(), "range with a non-identifier value"})
							return true
						}
						valIdent = vi
					}
					s := siteName(fn)
					sites = append(sites, site{s, fset.Position(rs.Pos()).String(), "range"})
					n := len(sites)
					mv := fmt.Sprintf("verifM%d", n)
					kv := fmt.Sprintf("verifK%d", n)
					keyType := types.TypeString(mt.Key(), qual)
					var xb bytes.Buffer
					printer.Fprint(&xb, fset, rs.X)
					// prologue inside the loop body
					var pro string
					kname := "_"
					if keyIdent != nil && keyIdent.Name != "_" {
						kname = keyIdent.Name
					}
					tok := ":="
					if rs.Tok == token.ASSIGN {
						tok = "="
					}
					if kname == "_" {
						kname = fmt.Sprintf("verifKK%d", n)
						pro += fmt.Sprintf("%s := %s.Interface().(%s)\n", kname, kv, keyType)
					} else {
						pro += fmt.Sprintf("%s %s %s.Interface().(%s)\n", kname, tok, kv, keyType)
					}
					if valIdent != nil && valIdent.Name != "_" {
						if tok == ":=" {
							pro += fmt.Sprintf("%s, verifOk%d := %s[%s]\n", valIdent.Name, n, mv, kname)
						} else {
							pro += fmt.Sprintf("var verifOk%d bool\n%s, verifOk%d = %s[%s]\n", n, valIdent.Name, n, mv, kname)
						}
					} else {
						pro += fmt.Sprintf("_, verifOk%d := %s[%s]\n", n, mv, kname)
					}
					pro += fmt.Sprintf("if !verifOk%d {\ncontinue\n}\n", n) // Go does not visit entries deleted during the iteration
					rs.Key = &ast.Ident{Name: "_"}
					rs.Value = &ast.Ident{Name: kv}
					rs.Tok = token.DEFINE
					rs.X = parseExpr(fmt.Sprintf("verifMapOrder(reflect.ValueOf(%s), %q)", mv, s))
					rs.Body.List = append(parseStmts(pro), rs.Body.List...)
					// the map expression is evaluated once, before the loop: handled by the enclosing block rewrite
					rs.Body.Rbrace = token.NoPos
					pendingInit[rs] = fmt.Sprintf("%s := %s", mv, xb.String())
					changed = true
					return true
				})
			}
			_ = rewriteBlock
			visit(fd.Body)
			// insert "verifMn := <map expr>" right before each rewritten range statement
			insertInits(fd.Body)
		}
		if changed {
			// make sure reflect is imported
			hasReflect := false
			for _, im := range f.Imports {
				if im.Path.Value == `"reflect"` {
					hasReflect = true
				}
			}
			var buf bytes.Buffer
			if err := printer.Fprint(&buf, fset, f); err != nil {
				fmt.Fprintln(os.Stderr, "maporder: print:", err)
				os.Exit(1)
			}
			src := buf.String()
			if !hasReflect {
				src = strings.Replace(src, "package flags\n", "package flags\n\nimport \"reflect\"\n", 1)
			}
			out := filepath.Join(outdir, fname)
			if err := os.WriteFile(out, []byte(src), 0644); err != nil {
				fmt.Fprintln(os.Stderr, "maporder:", err)
				os.Exit(1)
			}
			overlay[filepath.Join(cwd, fname)] = out
		}
	}
	hp := filepath.Join(outdir, "verif_maporder.go")
	os.WriteFile(hp, []byte(helper), 0644)
	overlay[filepath.Join(cwd, "verif_maporder.go")] = hp
	ob, _ := json.MarshalIndent(map[string]interface{}{"Replace": overlay}, "", " ")
	os.WriteFile(filepath.Join(outdir, "overlay.json"), ob, 0644)
	sb, _ := json.MarshalIndent(map[string]interface{}{"instrumented": sites, "not_instrumented": skipped}, "", " ")
	os.WriteFile(filepath.Join(outdir, "sites.json"), sb, 0644)
	fmt.Printf("maporder: %d map iteration sites instrumented, %d left alone\n", len(sites), len(skipped))
}

var pendingInit = map[*ast.RangeStmt]string{}

// insertInits walks every statement list and puts the pending "verifMn := expr" before its range statement.
func insertInits(n ast.Node) {
	ast.Inspect(n, func(x ast.Node) bool {
		var list *[]ast.Stmt
		switch v := x.(type) {
		case *ast.BlockStmt:
			list = &v.List
		case *ast.CaseClause:
			list = &v.Body
		case *ast.CommClause:
			list = &v.Body
		}
		if list == nil {
			return true
		}
		var out []ast.Stmt
		for _, st := range *list {
			target := st
			if ls, ok := st.(*ast.LabeledStmt); ok {
				target = ls.Stmt
			}
			if rs, ok := target.(*ast.RangeStmt); ok {
				if init, ok := pendingInit[rs]; ok {
					out = append(out, parseStmts(init)...)
					delete(pendingInit, rs)
				}
			}
			out = append(out, st)
		}
		*list = out
		return true
	})
}
