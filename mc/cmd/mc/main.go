// mc is the command line of the verification machinery:
//
//	mc check <id> quick|thorough     run one property's check (coordinator)
//	mc replay <file>                 re-execute one recorded violation
//	mc list                          list registered checks
//	mc worker ...                    (internal) worker process
package main

import (
	"fmt"
	"os"
	"sort"
	"time"

	_ "verif/mc/checks"
	"verif/mc/explore"
)

func main() {
	if len(os.Args) < 2 {
		fmt.Fprintln(os.Stderr, "usage: mc check <id> quick|thorough | replay <file> | list")
		os.Exit(2)
	}
	switch os.Args[1] {
	case "list":
		var ids []string
		for id := range explore.Registry {
			ids = append(ids, id)
		}
		sort.Strings(ids)
		for _, id := range ids {
			fmt.Println(id, explore.Registry[id].Level)
		}
	case "check":
		if len(os.Args) < 4 {
			fmt.Fprintln(os.Stderr, "usage: mc check <id> quick|thorough")
			os.Exit(2)
		}
		chk := explore.Registry[os.Args[2]]
		if chk == nil {
			fmt.Fprintln(os.Stderr, "no such check:", os.Args[2])
			os.Exit(2)
		}
		tier := os.Args[3]
		if t := os.Getenv("VERIF_TIER"); t == "quick" || t == "thorough" {
			tier = t
		}
		os.Exit(explore.RunCheck(chk, tier == "thorough"))
	case "replay":
		os.Exit(explore.ReplayFile(os.Args[2]))
	case "worker":
		// worker <id> <tier> <scratch> <wid> <deadline-unix-nano>
		chk := explore.Registry[os.Args[2]]
		var wid int
		var dl int64
		fmt.Sscan(os.Args[5], &wid)
		fmt.Sscan(os.Args[6], &dl)
		explore.WorkerMain(chk, os.Args[3] == "thorough", os.Args[4], wid, time.Unix(0, dl))
	default:
		fmt.Fprintln(os.Stderr, "unknown subcommand", os.Args[1])
		os.Exit(2)
	}
}
