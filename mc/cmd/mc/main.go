// mc is the command line of the verification machinery:
//
//	mc check <id> quick|thorough     run one property's check (coordinator)
//	mc replay <file>                 re-execute one recorded violation
//	mc list                          list registered checks
//	mc worker ...                    (internal) worker process
package main

import (
	"fmt"
	"os"
	"runtime/pprof"
	"sort"
	"time"

	_ "verif/mc/checks"
	"verif/mc/explore"
)

func main() {
	if len(os.Args) < 2 {
		fmt.Fprintln(os.Stderr, "usage: mc check <id> quick|thorough | replay <file> | list")
		os.Exit(2)
	}
	switch os.Args[1] {
	case "list":
		var ids []string
		for id := range explore.Registry {
			ids = append(ids, id)
		}
		sort.Strings(ids)
		for _, id := range ids {
			fmt.Println(id, explore.Registry[id].Level)
		}
	case "check":
		if len(os.Args) < 4 {
			fmt.Fprintln(os.Stderr, "usage: mc check <id> quick|thorough")
			os.Exit(2)
		}
		chk := explore.Registry[os.Args[2]]
		if chk == nil {
			fmt.Fprintln(os.Stderr, "no such check:", os.Args[2])
			os.Exit(2)
		}
		tier := os.Args[3]
		if t := os.Getenv("VERIF_TIER"); t == "quick" || t == "thorough" {
			tier = t
		}
		os.Exit(explore.RunCheck(chk, tier == "thorough"))
	case "bench":
		// bench <id> <seconds>: single-process exploration with a CPU profile (development aid)
		chk := explore.Registry[os.Args[2]]
		var secs int
		fmt.Sscan(os.Args[3], &secs)
		f, _ := os.Create("/tmp/mc.prof")
		pprof.StartCPUProfile(f)
		ex := explore.New(chk.ID, chk.Body, false)
		dl := time.Now().Add(time.Duration(secs) * time.Second)
		ex.Stop = func() bool { return time.Now().After(dl) }
		if chk.Setup != nil {
			chk.Setup(false, os.TempDir())
		}
		ex.Run(nil)
		pprof.StopCPUProfile()
		fmt.Println("leaves", ex.Stats.Leaves, "per leaf", time.Duration(secs)*time.Second/time.Duration(ex.Stats.Leaves+1))
	case "replay":
		os.Exit(explore.ReplayFile(os.Args[2]))
	case "worker":
		// worker <id> <tier> <scratch> <wid> <deadline-unix-nano>
		chk := explore.Registry[os.Args[2]]
		var wid int
		var dl int64
		fmt.Sscan(os.Args[5], &wid)
		fmt.Sscan(os.Args[6], &dl)
		explore.WorkerMain(chk, os.Args[3] == "thorough", os.Args[4], wid, time.Unix(0, dl))
	default:
		fmt.Fprintln(os.Stderr, "unknown subcommand", os.Args[1])
		os.Exit(2)
	}
}
