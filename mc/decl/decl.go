package decl

import (
	"fmt"
	"os"
	"reflect"
	"strconv"
	"strings"
	"unicode/utf8"

	flags "github.com/jessevdk/go-flags"
)

// Opt is one option declaration.
type Opt struct {
	Field string // exported Go field name, unique within its struct
	Short string // "" or one character
	Long  string
	Type  *Type

	Desc        string
	Defaults    []string
	DefaultsAPI []string // assigned to Option.Default by the program after the parser is built (the field has no default tag)
	Required    string   // tag text ("" = not given)
	Optional    string   // tag text
	OptionalVal []string
	Env         string
	EnvDelim    string
	Choices     []string
	Hidden      string
	ValueName   string
	DefaultMask string
	Base        string
	Unquote     string
	NilFunc     bool // a callback option whose function the program never assigns
	NoIni       string
	IniName     string
	Extra       string // raw tag text appended verbatim

	Initial interface{} // value stored in the field before the parser sees it (nil = zero)

	// filled by Finish
	ID     string // unique path
	LongNS string // namespaced long name
	EnvNS  string // namespaced env key
	Owner  *Cmd
	Group  *Group
}

func truthy(s string) bool { return !(s == "" || s == "false" || s == "no" || s == "0") }

func (o *Opt) IsRequired() bool { return truthy(o.Required) }
func (o *Opt) IsOptional() bool { return truthy(o.Optional) }
func (o *Opt) IsHidden() bool   { return truthy(o.Hidden) }
func (o *Opt) BaseN() int {
	if o.Base == "" {
		return 10
	}
	n, _ := strconv.Atoi(o.Base)
	return n
}

// Name is how messages refer to the option: -s, --long or "-s, --long".
func (o *Opt) Marker() string {
	switch {
	case o.Long != "" && o.Short != "":
		return "-" + o.Short + ", --" + o.LongNS // as the library renders an option with both names
	case o.Long != "":
		return "--" + o.LongNS
	}
	return "-" + o.Short
}

func q(s string) string { return strconv.Quote(s) }

// Tag renders the struct tag.
func (o *Opt) Tag() string {
	var b []string
	add := func(k, v string) { b = append(b, k+":"+q(v)) }
	if o.Short != "" {
		add("short", o.Short)
	}
	if o.Long != "" {
		add("long", o.Long)
	}
	if o.Desc != "" {
		add("description", o.Desc)
	}
	for _, d := range o.Defaults {
		add("default", d)
	}
	if o.Required != "" {
		add("required", o.Required)
	}
	if o.Optional != "" {
		add("optional", o.Optional)
	}
	for _, d := range o.OptionalVal {
		add("optional-value", d)
	}
	if o.Env != "" {
		add("env", o.Env)
	}
	if o.EnvDelim != "" {
		add("env-delim", o.EnvDelim)
	}
	for _, d := range o.Choices {
		add("choice", d)
	}
	if o.Hidden != "" {
		add("hidden", o.Hidden)
	}
	if o.ValueName != "" {
		add("value-name", o.ValueName)
	}
	if o.DefaultMask != "" {
		add("default-mask", o.DefaultMask)
	}
	if o.Base != "" {
		add("base", o.Base)
	}
	if o.Unquote != "" {
		add("unquote", o.Unquote)
	}
	if o.NoIni != "" {
		add("no-ini", o.NoIni)
	}
	if o.IniName != "" {
		add("ini-name", o.IniName)
	}
	s := strings.Join(b, " ")
	if o.Extra != "" {
		s += " " + o.Extra
	}
	return s
}

// Group is an option group (a struct field tagged group:"...").
type Group struct {
	Field        string
	Name         string
	Desc         string
	Namespace    string
	EnvNamespace string
	Hidden       bool
	Opts         []*Opt
	Groups       []*Group
}

// PosArg is one positional argument field.
type PosArg struct {
	Field    string
	Name     string // positional-arg-name ("" = field name)
	Type     *Type
	Required string // per-field required tag
	Desc     string
	Base     string // base tag (integer fields)
	MaxAPI   int    // > 0: the program sets Arg.RequiredMaximum to this after the parser is built (no minimum is set)

	ID    string
	Owner *Cmd
}

func (a *PosArg) BaseN() int {
	if a.Base == "" {
		return 10
	}
	n, _ := strconv.Atoi(a.Base)
	return n
}

func (a *PosArg) ShownName() string {
	if a.Name != "" {
		return a.Name
	}
	return a.Field
}

// Cmd is a command; the root of a declaration is the parser itself.
type Cmd struct {
	Field       string
	Name        string
	Aliases     []string
	SubOptional bool
	Hidden      bool
	Desc        string
	LongDesc    string
	Opts        []*Opt   // the command's own options
	Groups      []*Group // sub-groups
	Pos         []*PosArg
	PosRequired string // required tag on the positional-args struct
	// ArgsRequiredAPI: the program sets Command.ArgsRequired itself after building (no tag)
	ArgsRequiredAPI bool
	Cmds            []*Cmd
	Exec            bool // data is an *ExecCmd (API path only; options go into an added group)

	Parent *Cmd
	ID     string
}

// Decl is a whole declaration.
type Decl struct {
	viaAdd     bool // while BuildAdded runs: addable options are left untagged in the structs and added with (*Group).AddOption
	Top        *Cmd
	Options    flags.Options
	NsDelim    string // "" = library default "."
	EnvNsDelim string // "" = library default "_"
	Sentinels  bool   // add untagged fields holding sentinels to every generated struct

	types map[string]reflect.Type // generated struct types (a Decl is immutable after Finish)
}

// addable: the option has no attribute that only a struct tag can carry, so it can be handed over with (*Group).AddOption.
func (o *Opt) addable() bool {
	return o.Base == "" && o.Unquote == "" && o.NoIni == "" && o.IniName == "" && o.Extra == ""
}

func (d *Decl) cached(key string, f func() reflect.Type) reflect.Type {
	if d.viaAdd {
		key = "added/" + key
	}
	if t, ok := d.types[key]; ok {
		return t
	}
	if d.types == nil {
		d.types = map[string]reflect.Type{}
	}
	t := f()
	d.types[key] = t
	return t
}

func (d *Decl) nsDelim() string {
	if d.NsDelim == "" {
		return "."
	}
	return d.NsDelim
}

func (d *Decl) envDelim() string {
	if d.EnvNsDelim == "" {
		return "_"
	}
	return d.EnvNsDelim
}

// Finish computes ids, namespaced names and parents. Call once after building the AST.
func (d *Decl) Finish() *Decl {
	var doCmd func(c *Cmd, parent *Cmd, path string)
	doCmd = func(c *Cmd, parent *Cmd, path string) {
		c.Parent = parent
		c.ID = path
		var doGroup func(g *Group, ns, ens []string, gpath string)
		setOpt := func(o *Opt, ns, ens []string, gpath string, g *Group) {
			o.Owner = c
			o.Group = g
			o.ID = gpath + "/" + o.Field
			if o.Long != "" {
				o.LongNS = strings.Join(append(append([]string{}, ns...), o.Long), d.nsDelim())
			}
			if o.Env != "" {
				o.EnvNS = strings.Join(append(append([]string{}, ens...), o.Env), d.envDelim())
			}
		}
		doGroup = func(g *Group, ns, ens []string, gpath string) {
			if g.Namespace != "" {
				ns = append(append([]string{}, ns...), g.Namespace)
			}
			if g.EnvNamespace != "" {
				ens = append(append([]string{}, ens...), g.EnvNamespace)
			}
			for _, o := range g.Opts {
				setOpt(o, ns, ens, gpath+"/"+g.Field, g)
			}
			for _, gg := range g.Groups {
				doGroup(gg, ns, ens, gpath+"/"+g.Field)
			}
		}
		for _, o := range c.Opts {
			setOpt(o, nil, nil, path, nil)
		}
		for _, g := range c.Groups {
			doGroup(g, nil, nil, path)
		}
		for _, a := range c.Pos {
			a.Owner = c
			a.ID = path + "/Args/" + a.Field
		}
		for _, cc := range c.Cmds {
			doCmd(cc, c, path+"/"+cc.Name)
		}
	}
	doCmd(d.Top, nil, "")
	return d
}

// AllOpts lists the options of one command (own, then groups depth first) in lookup order.
func (c *Cmd) AllOpts() []*Opt {
	out := append([]*Opt{}, c.Opts...)
	var rec func(g *Group)
	rec = func(g *Group) {
		out = append(out, g.Opts...)
		for _, gg := range g.Groups {
			rec(gg)
		}
	}
	for _, g := range c.Groups {
		rec(g)
	}
	return out
}

// EachCmd visits the command tree depth first.
func (c *Cmd) EachCmd(f func(*Cmd)) {
	f(c)
	for _, cc := range c.Cmds {
		cc.EachCmd(f)
	}
}

// EveryOpt lists all options of the whole tree.
func (d *Decl) EveryOpt() []*Opt {
	var out []*Opt
	d.Top.EachCmd(func(c *Cmd) { out = append(out, c.AllOpts()...) })
	return out
}

// Find returns the subcommand selected by a word (name or alias).
func (c *Cmd) Find(word string) *Cmd {
	var found *Cmd
	for _, cc := range c.Cmds {
		if cc.Name == word {
			found = cc
		}
		for _, a := range cc.Aliases {
			if a == word {
				found = cc
			}
		}
	}
	return found
}

// ---------------------------------------------------------------- building

// Built is a real parser plus handles on everything the checks read back.
type Built struct {
	Decl     *Decl
	Parser   *flags.Parser
	Vals     map[*Opt]reflect.Value    // addressable field of every option
	PosVals  map[*PosArg]reflect.Value // addressable field of every positional
	Calls    map[*Opt]*[]string        // callback options: argument texts/values seen ("" for func())
	ExecLog  []ExecCall
	ExecIDs  map[string]*Cmd // ExecCmd id -> command
	Execs    map[*Cmd]*ExecState
	ExecData map[*Cmd]interface{}
	Cmds     map[*Cmd]*flags.Command
	plain    []plainField
	Err      error // error from building (AddGroup/AddCommand), if any
	TagPath  bool
}

type plainField struct {
	where string
	v     reflect.Value
	want  interface{}
}

func init() {
	// the program name shown in help and man pages is pinned
	os.Args = append([]string{"app"}, os.Args[1:]...)
}

func sf(name string, t reflect.Type, tag string) reflect.StructField {
	return reflect.StructField{Name: name, Type: t, Tag: reflect.StructTag(tag)}
}

var sentinelFields = []reflect.StructField{
	sf("PlainS", reflect.TypeOf(""), ""),
	sf("PlainI", reflect.TypeOf(0), ""),
	sf("PlainP", reflect.TypeOf((*struct{ X int })(nil)), ""),
	sf("PlainL", reflect.TypeOf([]string{}), `json:"long"`),
}

func (d *Decl) optFields(opts []*Opt) []reflect.StructField {
	var fs []reflect.StructField
	for _, o := range opts {
		if d.viaAdd && o.addable() {
			fs = append(fs, sf(o.Field, o.Type.RT, ""))
			continue
		}
		fs = append(fs, sf(o.Field, o.Type.RT, o.Tag()))
	}
	return fs
}

// addOptions hands every addable option of opts to the library with (*Group).AddOption, bound to its (untagged) field in v.
func (b *Built) addOptions(g *flags.Group, v reflect.Value, opts []*Opt) {
	if !b.Decl.viaAdd {
		return
	}
	for _, o := range opts {
		if !o.addable() {
			continue
		}
		fo := &flags.Option{LongName: o.Long, Description: o.Desc, Default: append([]string(nil), o.Defaults...), DefaultMask: o.DefaultMask,
			EnvDefaultKey: o.Env, EnvDefaultDelim: o.EnvDelim, OptionalArgument: truthy(o.Optional), OptionalValue: append([]string(nil), o.OptionalVal...),
			Required: truthy(o.Required), ValueName: o.ValueName, Choices: append([]string(nil), o.Choices...), Hidden: truthy(o.Hidden)}
		if o.Short != "" {
			r, _ := utf8.DecodeRuneInString(o.Short)
			fo.ShortName = r
		}
		g.AddOption(fo, v.FieldByName(o.Field).Addr().Interface())
	}
}

// BuildAdded is BuildAPI with every option that needs no tag-only attribute handed over with (*Group).AddOption
// instead of being declared by a struct tag (the struct field is there, untagged, and holds the value).
func (d *Decl) BuildAdded() *Built {
	d.viaAdd = true
	defer func() { d.viaAdd = false }()
	return d.BuildAPIWith(nil)
}

func (d *Decl) groupType(g *Group) reflect.Type {
	return d.cached(fmt.Sprintf("g%p", g), func() reflect.Type { return d.groupType0(g) })
}

func (d *Decl) groupType0(g *Group) reflect.Type {
	var fs []reflect.StructField
	if d.Sentinels {
		fs = append(fs, sentinelFields...)
	}
	// a group declared by a tag inside another struct keeps its options declared by tags on every build path
	va := d.viaAdd
	d.viaAdd = false
	fs = append(fs, d.optFields(g.Opts)...)
	d.viaAdd = va
	for _, gg := range g.Groups {
		fs = append(fs, sf(gg.Field, d.groupType(gg), groupTag(gg)))
	}
	return reflect.StructOf(fs)
}

func groupTag(g *Group) string {
	t := "group:" + q(g.Name)
	if g.Desc != "" {
		t += " description:" + q(g.Desc)
	}
	if g.Namespace != "" {
		t += " namespace:" + q(g.Namespace)
	}
	if g.EnvNamespace != "" {
		t += " env-namespace:" + q(g.EnvNamespace)
	}
	if g.Hidden {
		t += ` hidden:"yes"`
	}
	return t
}

func cmdTag(c *Cmd) string {
	t := "command:" + q(c.Name)
	if c.Desc != "" {
		t += " description:" + q(c.Desc)
	}
	if c.LongDesc != "" {
		t += " long-description:" + q(c.LongDesc)
	}
	for _, a := range c.Aliases {
		t += " alias:" + q(a)
	}
	if c.SubOptional {
		t += ` subcommands-optional:"yes"`
	}
	if c.Hidden {
		t += ` hidden:"yes"`
	}
	return t
}

func posType(c *Cmd) reflect.Type {
	var fs []reflect.StructField
	for _, a := range c.Pos {
		t := ""
		if a.Name != "" {
			t += "positional-arg-name:" + q(a.Name)
		}
		if a.Required != "" {
			t += " required:" + q(a.Required)
		}
		if a.Desc != "" {
			t += " description:" + q(a.Desc)
		}
		if a.Base != "" {
			t += " base:" + q(a.Base)
		}
		fs = append(fs, sf(a.Field, a.Type.RT, strings.TrimSpace(t)))
	}
	return reflect.StructOf(fs)
}

func posTag(c *Cmd) string {
	t := `positional-args:"yes"`
	if c.PosRequired != "" {
		t += " required:" + q(c.PosRequired)
	}
	return t
}

// cmdType builds the struct type of a command; withCmds=false leaves subcommands to the API.
func (d *Decl) cmdType(c *Cmd, withCmds, withOpts bool) reflect.Type {
	if c.ID == "" && c.Parent == nil && c != d.Top {
		return d.cmdType0(c, withCmds, withOpts) // synthetic command (API path top group)
	}
	return d.cached(fmt.Sprintf("c%p/%v/%v", c, withCmds, withOpts), func() reflect.Type { return d.cmdType0(c, withCmds, withOpts) })
}

func (d *Decl) cmdType0(c *Cmd, withCmds, withOpts bool) reflect.Type {
	var fs []reflect.StructField
	if d.Sentinels {
		fs = append(fs, sentinelFields...)
	}
	if withOpts {
		fs = append(fs, d.optFields(c.Opts)...)
		for _, g := range c.Groups {
			fs = append(fs, sf(g.Field, d.groupType(g), groupTag(g)))
		}
	}
	if len(c.Pos) > 0 {
		fs = append(fs, sf("Args", posType(c), posTag(c)))
	}
	if withCmds {
		for _, cc := range c.Cmds {
			fs = append(fs, sf(cc.Field, d.cmdType(cc, true, true), cmdTag(cc)))
		}
	}
	return reflect.StructOf(fs)
}

func (b *Built) bindOpts(v reflect.Value, opts []*Opt, where string) {
	for _, o := range opts {
		f := v.FieldByName(o.Field)
		b.Vals[o] = f
		if o.Type.IsFunc() && o.NilFunc {
			b.Calls[o] = &[]string{}
		} else if o.Type.IsFunc() {
			log := &[]string{}
			b.Calls[o] = log
			switch o.Type {
			case TFunc0:
				f.Set(reflect.ValueOf(func() { *log = append(*log, "") }))
			case TFunc0E:
				f.Set(reflect.ValueOf(func() error {
					*log = append(*log, "")
					return fmt.Errorf("callback always refuses")
				}))
			case TFuncS:
				f.Set(reflect.ValueOf(func(s string) { *log = append(*log, s) }))
			case TFuncVar:
				f.Set(reflect.ValueOf(func(s ...string) { *log = append(*log, strings.Join(s, "\x1f")) }))
			case TFuncIE:
				f.Set(reflect.ValueOf(func(i int) error {
					*log = append(*log, strconv.Itoa(i))
					if i == 13 {
						return fmt.Errorf("callback refuses 13")
					}
					return nil
				}))
			}
		} else if o.Initial != nil {
			f.Set(CopyInitial(reflect.ValueOf(o.Initial).Convert(f.Type())))
		}
	}
}

// CopyInitial gives every execution its own copy of a preset slice or map, so that a library that
// writes into the preset cannot leak from one execution into the next.
func CopyInitial(v reflect.Value) reflect.Value {
	switch v.Kind() {
	case reflect.Slice:
		if v.IsNil() {
			return v
		}
		n := reflect.MakeSlice(v.Type(), v.Len(), v.Len())
		reflect.Copy(n, v)
		return n
	case reflect.Map:
		if v.IsNil() {
			return v
		}
		n := reflect.MakeMapWithSize(v.Type(), v.Len())
		for _, k := range v.MapKeys() {
			n.SetMapIndex(k, v.MapIndex(k))
		}
		return n
	}
	return v
}

func (b *Built) bindSentinels(v reflect.Value, where string) {
	if !b.Decl.Sentinels {
		return
	}
	v.FieldByName("PlainS").SetString("sentinel")
	v.FieldByName("PlainI").SetInt(7)
	v.FieldByName("PlainL").Set(reflect.ValueOf([]string{"keep"}))
	b.plain = append(b.plain,
		plainField{where + ".PlainS", v.FieldByName("PlainS"), "sentinel"},
		plainField{where + ".PlainI", v.FieldByName("PlainI"), 7},
		plainField{where + ".PlainP", v.FieldByName("PlainP"), nil},
		plainField{where + ".PlainL", v.FieldByName("PlainL"), []string{"keep"}},
	)
}

func (b *Built) bindGroup(v reflect.Value, g *Group, where string) {
	b.bindSentinels(v, where)
	b.bindOpts(v, g.Opts, where)
	for _, gg := range g.Groups {
		b.bindGroup(v.FieldByName(gg.Field), gg, where+"."+gg.Field)
	}
}

func (b *Built) bindCmd(v reflect.Value, c *Cmd, withCmds, withOpts bool, where string) {
	b.bindSentinels(v, where)
	if withOpts {
		b.bindOpts(v, c.Opts, where)
		for _, g := range c.Groups {
			b.bindGroup(v.FieldByName(g.Field), g, where+"."+g.Field)
		}
	}
	if len(c.Pos) > 0 {
		av := v.FieldByName("Args")
		for _, a := range c.Pos {
			b.PosVals[a] = av.FieldByName(a.Field)
		}
	}
	if withCmds {
		for _, cc := range c.Cmds {
			b.bindCmd(v.FieldByName(cc.Field), cc, true, true, where+"."+cc.Field)
		}
	}
}

// PlainTouched reports the first untagged field whose sentinel changed ("" if none).
func (b *Built) PlainTouched() string {
	for _, p := range b.plain {
		switch w := p.want.(type) {
		case nil:
			if !p.v.IsNil() {
				return p.where
			}
		case string:
			if p.v.String() != w {
				return p.where
			}
		case int:
			if p.v.Int() != int64(w) {
				return p.where
			}
		case []string:
			if !reflect.DeepEqual(p.v.Interface(), w) {
				return p.where
			}
		}
	}
	return ""
}

func newBuilt(d *Decl) *Built {
	return &Built{Decl: d, Vals: map[*Opt]reflect.Value{}, PosVals: map[*PosArg]reflect.Value{}, Calls: map[*Opt]*[]string{},
		ExecIDs: map[string]*Cmd{}, Execs: map[*Cmd]*ExecState{}, ExecData: map[*Cmd]interface{}{}, Cmds: map[*Cmd]*flags.Command{}}
}

func (b *Built) finishParser(p *flags.Parser) {
	if b.Decl.NsDelim != "" {
		p.NamespaceDelimiter = b.Decl.NsDelim
	}
	if b.Decl.EnvNsDelim != "" {
		p.EnvNamespaceDelimiter = b.Decl.EnvNsDelim
	}
	b.Parser = p
}

// BuildTags builds the parser from one struct with tags (what most programs do).
// Commands marked Exec are built as ordinary (non-executable) commands here.
func (d *Decl) BuildTags() *Built {
	b := newBuilt(d)
	b.TagPath = true
	t := d.cmdType(d.Top, true, true)
	pv := reflect.New(t)
	b.bindCmd(pv.Elem(), d.Top, true, true, "top")
	p := flags.NewParser(pv.Interface(), d.Options)
	p.SubcommandsOptional = d.Top.SubOptional // the parser itself has no tag to carry the mark
	b.finishParser(p)
	// map commands
	var mapCmds func(fc *flags.Command, c *Cmd)
	mapCmds = func(fc *flags.Command, c *Cmd) {
		b.Cmds[c] = fc
		if c.ArgsRequiredAPI {
			fc.ArgsRequired = true
		}
		for _, cc := range c.Cmds {
			if sub := fc.Find(cc.Name); sub != nil {
				mapCmds(sub, cc)
			}
		}
	}
	mapCmds(p.Command, d.Top)
	b.applyArgAPI()
	return b
}

// BuildAPI builds the same declaration through NewNamedParser / AddGroup / AddCommand.
func (d *Decl) BuildAPI() *Built { return d.BuildAPIWith(nil) }

// BuildAPIWith is BuildAPI with the parser's sub-groups added last: the commands are added first, then
// between(b) runs (typically parses or completions on the half-built parser), then the groups are added
// to the parser. Options added late must be in scope everywhere an earlier-added one would be.
func (d *Decl) BuildAPIWith(between func(b *Built)) *Built {
	b := newBuilt(d)
	p := flags.NewNamedParser("app", d.Options)
	b.finishParser(p)
	fail := func(err error) *Built {
		if b.Err == nil {
			b.Err = err
		}
		return b
	}
	// top-level: one group with the parser's options (and positionals), sub-groups added programmatically
	var addGroups func(parent interface {
		AddGroup(string, string, interface{}) (*flags.Group, error)
	}, gs []*Group) error
	addGroups = func(parent interface {
		AddGroup(string, string, interface{}) (*flags.Group, error)
	}, gs []*Group) error {
		for _, g := range gs {
			// the group's own options only; nested groups are added through the API as well
			gt := d.cached(fmt.Sprintf("apig%p", g), func() reflect.Type {
				return reflect.StructOf(append(sentinelIf(d), d.optFields(g.Opts)...))
			})
			gv := reflect.New(gt)
			b.bindSentinels(gv.Elem(), "api."+g.Field)
			b.bindOpts(gv.Elem(), g.Opts, "api."+g.Field)
			fg, err := parent.AddGroup(g.Name, g.Desc, gv.Interface())
			if err != nil {
				return err
			}
			fg.Namespace = g.Namespace
			fg.EnvNamespace = g.EnvNamespace
			fg.Hidden = g.Hidden
			b.addOptions(fg, gv.Elem(), g.Opts)
			if between != nil && len(g.Groups) > 0 {
				// late build: the parser is used once more before the nested groups arrive through (*Group).AddGroup
				between(b)
			}
			if err := addGroups(fg, g.Groups); err != nil {
				return err
			}
		}
		return nil
	}
	tt := d.cached("apitop", func() reflect.Type {
		return d.cmdType0(&Cmd{Opts: d.Top.Opts, Pos: d.Top.Pos, PosRequired: d.Top.PosRequired}, false, true)
	})
	tv := reflect.New(tt)
	b.bindCmd(tv.Elem(), &Cmd{Opts: d.Top.Opts, Pos: d.Top.Pos}, false, true, "api.top")
	if tg, err := p.AddGroup("Application Options", "", tv.Interface()); err != nil {
		return fail(err)
	} else {
		b.addOptions(tg, tv.Elem(), d.Top.Opts)
	}
	if between == nil {
		if err := addGroups(p.Command, d.Top.Groups); err != nil {
			return fail(err)
		}
	}
	p.SubcommandsOptional = d.Top.SubOptional
	b.Cmds[d.Top] = p.Command
	if d.Top.ArgsRequiredAPI {
		p.ArgsRequired = true
	}
	var addCmds func(parent *flags.Command, cs []*Cmd) error
	addCmds = func(parent *flags.Command, cs []*Cmd) error {
		for _, c := range cs {
			var data interface{}
			var fc *flags.Command
			var err error
			if c.Exec {
				id := c.ID
				b.ExecIDs[id] = c
				st := &ExecState{ID: id, log: &b.ExecLog}
				b.Execs[c] = st
				if len(c.Pos) > 0 && c.Pos[0].Type == TInt && c.PosRequired == "" {
					e := &ExecCmdPosIntOpt{st: st}
					data = e
					ev := reflect.ValueOf(e).Elem().FieldByName("Args")
					for _, a := range c.Pos {
						b.PosVals[a] = ev.FieldByName(a.Field)
					}
				} else if len(c.Pos) > 0 && c.Pos[0].Type == TInt {
					e := &ExecCmdPosInt{st: st}
					data = e
					ev := reflect.ValueOf(e).Elem().FieldByName("Args")
					for _, a := range c.Pos {
						b.PosVals[a] = ev.FieldByName(a.Field)
					}
				} else if len(c.Pos) > 0 {
					e := &ExecCmdPos{st: st}
					data = e
					ev := reflect.ValueOf(e).Elem().FieldByName("Args")
					for _, a := range c.Pos {
						b.PosVals[a] = ev.FieldByName(a.Field)
					}
				} else {
					data = &ExecCmd{st: st}
				}
				b.ExecData[c] = data
				fc, err = parent.AddCommand(c.Name, c.Desc, c.LongDesc, data)
				if err != nil {
					return err
				}
				if len(c.Opts) > 0 {
					gt := d.cached(fmt.Sprintf("apic%p", c), func() reflect.Type {
						return reflect.StructOf(append(sentinelIf(d), d.optFields(c.Opts)...))
					})
					gv := reflect.New(gt)
					b.bindSentinels(gv.Elem(), "api.cmd."+c.Name)
					b.bindOpts(gv.Elem(), c.Opts, "api.cmd."+c.Name)
					if og, err := fc.AddGroup(c.Name+" options", "", gv.Interface()); err != nil {
						return err
					} else {
						b.addOptions(og, gv.Elem(), c.Opts)
					}
				}
			} else {
				ct := d.cmdType(c, false, true)
				cv := reflect.New(ct)
				// groups of a command declared by tags inside the command's data
				b.bindCmd(cv.Elem(), c, false, true, "api.cmd."+c.Name)
				fc, err = parent.AddCommand(c.Name, c.Desc, c.LongDesc, cv.Interface())
				if err != nil {
					return err
				}
				b.addOptions(fc.Group, cv.Elem(), c.Opts)
			}
			fc.Aliases = c.Aliases
			if c.ArgsRequiredAPI {
				fc.ArgsRequired = true
			}
			fc.SubcommandsOptional = c.SubOptional
			fc.Hidden = c.Hidden
			b.Cmds[c] = fc
			if c.Exec {
				if err := addGroups(fc, c.Groups); err != nil {
					return err
				}
			}
			if err := addCmds(fc, c.Cmds); err != nil {
				return err
			}
		}
		return nil
	}
	if err := addCmds(p.Command, d.Top.Cmds); err != nil {
		return fail(err)
	}
	if between != nil {
		between(b)
		if err := addGroups(p.Command, d.Top.Groups); err != nil {
			return fail(err)
		}
	}
	b.applyArgAPI()
	return b
}

func sentinelIf(d *Decl) []reflect.StructField {
	if d.Sentinels {
		return append([]reflect.StructField{}, sentinelFields...)
	}
	return nil
}

// Option returns the library's Option object of a declared option (found in the groups of its owning command).
func (b *Built) Option(o *Opt) *flags.Option {
	fc := b.Cmds[o.Owner]
	if fc == nil {
		return nil
	}
	var find func(g *flags.Group) *flags.Option
	find = func(g *flags.Group) *flags.Option {
		for _, fo := range g.Options() {
			if fo.LongName == o.Long && (o.Short == "" || string(fo.ShortName) == o.Short) {
				return fo
			}
		}
		for _, gg := range g.Groups() {
			if fo := find(gg); fo != nil {
				return fo
			}
		}
		return nil
	}
	return find(fc.Group)
}

// applyArgAPI sets what a program sets on the Arg values of a built parser.
func (b *Built) applyArgAPI() {
	for c, fc := range b.Cmds {
		if fc == nil {
			continue
		}
		args := fc.Args()
		for i, a := range c.Pos {
			if a.MaxAPI > 0 && i < len(args) {
				args[i].RequiredMaximum = a.MaxAPI
			}
		}
	}
	for _, o := range b.Decl.EveryOpt() {
		if len(o.DefaultsAPI) > 0 && o.Long != "" && b.Parser != nil {
			if fo := b.Parser.FindOptionByLongName(o.LongNS); fo != nil {
				fo.Default = append([]string(nil), o.DefaultsAPI...)
			}
		}
	}
}

// ActiveChain returns the names of the active commands below the parser.
func (b *Built) ActiveChain() []string {
	var out []string
	for c := b.Parser.Active; c != nil; c = c.Active {
		out = append(out, c.Name)
	}
	return out
}
