// Package decl turns a small declaration AST into a real *flags.Parser, either
// through struct tags on run-time generated struct types (reflect.StructOf) or
// through the programmatic API, and into the view the reference models use.
package decl

import (
	"errors"
	"fmt"
	"reflect"
	"strings"
	"time"

	flags "github.com/jessevdk/go-flags"
)

// Upper is a custom Unmarshaler/Marshaler: stores the upper-cased text, rejects "bad".
type Upper struct{ S string }

func (u *Upper) UnmarshalFlag(v string) error {
	if v == "bad" {
		return errors.New("upper: bad value")
	}
	u.S = strings.ToUpper(v)
	return nil
}

func (u Upper) MarshalFlag() (string, error) { return strings.ToLower(u.S), nil }

// OnOff is a bool-kinded type with its own Unmarshaler: it takes an argument ("on"/"off") although its kind is bool.
type OnOff bool

func (o *OnOff) UnmarshalFlag(v string) error {
	switch v {
	case "on":
		*o = true
	case "off":
		*o = false
	default:
		return fmt.Errorf("onoff: %q is neither on nor off", v)
	}
	return nil
}

// Shout is a string-kinded type whose only method is an Unmarshaler with a pointer receiver (no Marshaler): it stores the upper-cased text.
type Shout string

func (s *Shout) UnmarshalFlag(v string) error {
	*s = Shout(strings.ToUpper(v))
	return nil
}

// PLevel is an integer-kinded type whose Marshaler and Unmarshaler both have pointer receivers (the usual way to write them).
type PLevel int

func (l *PLevel) MarshalFlag() (string, error) {
	return []string{"low", "high"}[((int(*l)%2)+2)%2], nil
}

func (l *PLevel) UnmarshalFlag(s string) error {
	switch s {
	case "low":
		*l = 0
	case "high":
		*l = 1
	default:
		return fmt.Errorf("plevel: %q is neither low nor high", s)
	}
	return nil
}

// Sink is a struct-kinded type whose Unmarshaler has a value receiver: it cannot change itself, it hands every argument
// on to the slice it points to (if any).
type Sink struct{ Log *[]string }

func (s Sink) UnmarshalFlag(v string) error {
	if v == "bad" {
		return fmt.Errorf("sink: bad")
	}
	if s.Log != nil {
		*s.Log = append(*s.Log, v)
	}
	return nil
}

// CSV is a slice-kinded type with its own Unmarshaler: every argument adds its comma-separated items.
type CSV []string

func (c *CSV) UnmarshalFlag(v string) error {
	if v == "bad" {
		return errors.New("csv: bad value")
	}
	*c = append(*c, strings.Split(v, ",")...)
	return nil
}

// Grade is a named integer type that can print itself (fmt.Stringer) but has no flag marshalling of its own:
// it is read and written as the integer it is.
type Grade int

func (g Grade) String() string { return [...]string{"low", "mid", "high"}[((int(g)%3)+3)%3] }

// Level is a named string type (map keys / values of named types).
type Level string

// Picky is a string with a ValueValidator: refuses separate-token values starting with "no".
type Picky string

func (p *Picky) IsValidValue(v string) error {
	if strings.HasPrefix(v, "no") {
		return fmt.Errorf("picky: value %q not allowed (100%% %%d)", v)
	}
	return nil
}

// Words is a string with a Completer over a fixed word list.
type Words string

var WordList = []string{"alpha", "alpine", "beta", "add"}

func (w *Words) Complete(match string) []flags.Completion {
	var out []flags.Completion
	for _, s := range WordList {
		if strings.HasPrefix(s, match) {
			out = append(out, flags.Completion{Item: s})
		}
	}
	return out
}

// Words2 is a second Completer with a different list (so that binding to the wrong field shows).
type Words2 string

var WordList2 = []string{"gamma", "alto", "beta2"}

func (w *Words2) Complete(match string) []flags.Completion {
	var out []flags.Completion
	for _, s := range WordList2 {
		if strings.HasPrefix(s, match) {
			out = append(out, flags.Completion{Item: s})
		}
	}
	return out
}

// WordsCI is a Completer that matches case-insensitively and answers in its own canonical (lower-case) spelling: what it
// returns need not start with what was typed.
type WordsCI string

var WordListCI = []string{"delta", "deluxe", "echo"}

func (w *WordsCI) Complete(match string) []flags.Completion {
	var out []flags.Completion
	for _, s := range WordListCI {
		if strings.HasPrefix(s, strings.ToLower(match)) {
			out = append(out, flags.Completion{Item: s})
		}
	}
	return out
}

// ExecCall is one invocation of Execute or of the CommandHandler.
type ExecCall struct {
	Via  string // "execute" | "handler"
	Cmd  string // id of the ExecCmd ("" when the handler got a nil command)
	Args []string
}

// ExecState is the harness side of an executable command.
type ExecState struct {
	ID  string
	log *[]ExecCall
	Err error
}

// ExecCmd is an executable command (Commander). Unexported fields are invisible to the scanner.
type ExecCmd struct {
	st *ExecState
}

func (e *ExecCmd) Execute(args []string) error {
	*e.st.log = append(*e.st.log, ExecCall{Via: "execute", Cmd: e.st.ID, Args: append([]string{}, args...)})
	return e.st.Err
}

// ExecCmdPos is an executable command with one scalar and one rest positional.
type ExecCmdPos struct {
	st   *ExecState
	Args struct {
		First string
		Rest  []string
	} `positional-args:"yes" required:"yes"`
}

func (e *ExecCmdPos) Execute(args []string) error {
	*e.st.log = append(*e.st.log, ExecCall{Via: "execute", Cmd: e.st.ID, Args: append([]string{}, args...)})
	return e.st.Err
}

// ExecCmdPosInt is an executable command whose first positional is an int.
type ExecCmdPosInt struct {
	st   *ExecState
	Args struct {
		First int
		Rest  []string
	} `positional-args:"yes" required:"yes"`
}

func (e *ExecCmdPosInt) Execute(args []string) error {
	*e.st.log = append(*e.st.log, ExecCall{Via: "execute", Cmd: e.st.ID, Args: append([]string{}, args...)})
	return e.st.Err
}

// ExecCmdPosIntOpt is ExecCmdPosInt without the required mark: its positionals are optional.
type ExecCmdPosIntOpt struct {
	st   *ExecState
	Args struct {
		First int
		Rest  []string
	} `positional-args:"yes"`
}

func (e *ExecCmdPosIntOpt) Execute(args []string) error {
	*e.st.log = append(*e.st.log, ExecCall{Via: "execute", Cmd: e.st.ID, Args: append([]string{}, args...)})
	return e.st.Err
}

// Type describes the Go type of an option or positional field.
type Type struct {
	Name string
	RT   reflect.Type
}

var (
	errorType = reflect.TypeOf((*error)(nil)).Elem()

	TBool     = &Type{"bool", reflect.TypeOf(false)}
	TBools    = &Type{"[]bool", reflect.TypeOf([]bool{})}
	TPBool    = &Type{"*bool", reflect.TypeOf((*bool)(nil))}
	TString   = &Type{"string", reflect.TypeOf("")}
	TInt      = &Type{"int", reflect.TypeOf(int(0))}
	TInt8     = &Type{"int8", reflect.TypeOf(int8(0))}
	TInt16    = &Type{"int16", reflect.TypeOf(int16(0))}
	TInt32    = &Type{"int32", reflect.TypeOf(int32(0))}
	TInt64    = &Type{"int64", reflect.TypeOf(int64(0))}
	TUint     = &Type{"uint", reflect.TypeOf(uint(0))}
	TUint8    = &Type{"uint8", reflect.TypeOf(uint8(0))}
	TUint16   = &Type{"uint16", reflect.TypeOf(uint16(0))}
	TUint32   = &Type{"uint32", reflect.TypeOf(uint32(0))}
	TUint64   = &Type{"uint64", reflect.TypeOf(uint64(0))}
	TFloat32  = &Type{"float32", reflect.TypeOf(float32(0))}
	TFloat64  = &Type{"float64", reflect.TypeOf(float64(0))}
	TDuration = &Type{"time.Duration", reflect.TypeOf(time.Duration(0))}
	TPString  = &Type{"*string", reflect.TypeOf((*string)(nil))}
	TPInt     = &Type{"*int", reflect.TypeOf((*int)(nil))}
	TStrings  = &Type{"[]string", reflect.TypeOf([]string{})}
	TInts     = &Type{"[]int", reflect.TypeOf([]int{})}
	TUint8s   = &Type{"[]uint8", reflect.TypeOf([]uint8{})}
	TMapSS    = &Type{"map[string]string", reflect.TypeOf(map[string]string{})}
	TMapSI    = &Type{"map[string]int", reflect.TypeOf(map[string]int{})}
	TMapSB    = &Type{"map[string]bool", reflect.TypeOf(map[string]bool{})}
	TMapIS    = &Type{"map[int]string", reflect.TypeOf(map[int]string{})}
	TFunc0    = &Type{"func()", reflect.TypeOf(func() {})}
	TFuncS    = &Type{"func(string)", reflect.TypeOf(func(string) {})}
	TFuncVar  = &Type{"func(...string)", reflect.TypeOf(func(...string) {})} // a variadic callback: it is handed the one argument of the occurrence
	TFuncIE   = &Type{"func(int) error", reflect.TypeOf(func(int) error { return nil })}
	TFunc0E   = &Type{"func() error", reflect.TypeOf(func() error { return nil })}
	TUpper    = &Type{"Upper", reflect.TypeOf(Upper{})}
	TPUpper   = &Type{"*Upper", reflect.TypeOf((*Upper)(nil))}
	TUppers   = &Type{"[]Upper", reflect.TypeOf([]Upper{})}
	TPicky    = &Type{"Picky", reflect.TypeOf(Picky(""))}
	TOnOff    = &Type{"OnOff", reflect.TypeOf(OnOff(false))}
	TCSV      = &Type{"CSV", reflect.TypeOf(CSV{})}
	TSink     = &Type{"Sink", reflect.TypeOf(Sink{})}
	TShout    = &Type{"Shout", reflect.TypeOf(Shout(""))}
	TPLevel   = &Type{"PLevel", reflect.TypeOf(PLevel(0))}
	TPLevels  = &Type{"[]PLevel", reflect.TypeOf([]PLevel{})}
	TOnOffs   = &Type{"[]OnOff", reflect.TypeOf([]OnOff{})}
	TMapLS    = &Type{"map[Level]string", reflect.TypeOf(map[Level]string{})}
	TMapSL    = &Type{"map[string]Level", reflect.TypeOf(map[string]Level{})}
	TGrade    = &Type{"Grade", reflect.TypeOf(Grade(0))}
	TGrades   = &Type{"[]Grade", reflect.TypeOf([]Grade{})}
	TPInts    = &Type{"[]*int", reflect.TypeOf([]*int{})}
	TPStrs    = &Type{"[]*string", reflect.TypeOf([]*string{})}
	TPBools   = &Type{"[]*bool", reflect.TypeOf([]*bool{})}
	TPPBool   = &Type{"**bool", reflect.TypeOf((**bool)(nil))}
	TPWords   = &Type{"*Words", reflect.TypeOf((*Words)(nil))}
	TMapBS    = &Type{"map[bool]string", reflect.TypeOf(map[bool]string{})}
	TMapU16U8 = &Type{"map[uint16]uint8", reflect.TypeOf(map[uint16]uint8{})}
	TWords    = &Type{"Words", reflect.TypeOf(Words(""))}
	TWords2   = &Type{"Words2", reflect.TypeOf(Words2(""))}
	TWordsCI  = &Type{"WordsCI", reflect.TypeOf(WordsCI(""))}
	TWordss   = &Type{"[]Words", reflect.TypeOf([]Words{})}
	TIface    = &Type{"interface{}", reflect.TypeOf((*interface{})(nil)).Elem()}
	TArray    = &Type{"[2]int", reflect.TypeOf([2]int{})}
)

// IsFlag: the option takes no argument (bool, slices of / pointers to bool, func()).
func (t *Type) IsFlag() bool {
	rt := t.RT
	if reflect.PtrTo(rt).Implements(unmarshalerType) || rt.Implements(unmarshalerType) {
		return false
	}
	for {
		switch rt.Kind() {
		case reflect.Slice, reflect.Ptr:
			rt = rt.Elem()
			if reflect.PtrTo(rt).Implements(unmarshalerType) || rt.Implements(unmarshalerType) {
				return false // a slice of / pointer to a type that reads its own argument
			}
		case reflect.Bool:
			return true
		case reflect.Func:
			return rt.NumIn() == 0
		default:
			return false
		}
	}
}

var unmarshalerType = reflect.TypeOf((*flags.Unmarshaler)(nil)).Elem()

func (t *Type) IsFunc() bool  { return t.RT.Kind() == reflect.Func }
func (t *Type) IsSlice() bool { return t.RT.Kind() == reflect.Slice }
func (t *Type) IsMap() bool   { return t.RT.Kind() == reflect.Map }
func (t *Type) IsMulti() bool { return t.IsSlice() || t.IsMap() }

// IsSignedNumber: a value like -5 may follow such an option as a separate token.
func (t *Type) IsSignedNumber() bool {
	rt := t.RT
	for rt.Kind() == reflect.Slice || rt.Kind() == reflect.Ptr {
		rt = rt.Elem()
	}
	switch rt.Kind() {
	case reflect.Int, reflect.Int8, reflect.Int16, reflect.Int32, reflect.Int64, reflect.Float32, reflect.Float64:
		return true
	}
	return false
}

// SliceOf returns the reflect type of a slice of t.
func SliceOf(t *Type) reflect.Type { return reflect.SliceOf(t.RT) }
