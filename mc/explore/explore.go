// Package explore is the stateless bounded-exhaustive explorer used by every
// check: a check body draws all of its nondeterminism from Ctx.Choose /
// Ctx.Deviate, the explorer enumerates the whole choice tree (depth first,
// optionally deviation bounded), running the body on a fresh state for every
// leaf.
package explore

import (
	"fmt"
	"hash/fnv"
	"runtime"
	"sort"
	"strings"
)

// abort is panicked by Choose when the expansion depth is reached.
type abort struct{}

// replayDivergence is panicked when a recorded choice does not fit the body.
type replayDivergence struct{ msg string }

// leafSkip is panicked by Ctx.Skip.
type leafSkip struct{}

type point struct {
	choice int
	arity  int
	dev    bool // a deviation point: choice != 0 costs one deviation
}

// Failure is one violated assertion on one leaf.
type Failure struct {
	Sig     string      `json:"signature"`
	Kind    string      `json:"kind"` // assertion | panic | nondeterministic | crash | hang
	Choices []int       `json:"choices"`
	Detail  interface{} `json:"detail,omitempty"`
	Repro   int         `json:"reproduced"` // how many of the 5 re-runs failed with the same signature
}

// Ctx is handed to a check body for one leaf.
type Ctx struct {
	ID       string
	Thorough bool
	Verbose  bool // replay mode: bodies may log

	points   []point
	pos      int
	maxDepth int // expansion mode: abort when pos reaches maxDepth (0 = off)
	devBound int // -1 = unbounded

	fails    []Failure
	obs      []uint64 // observation hashes of this leaf (determinism double run)
	describe func() interface{}

	st *Stats
}

// Stats is what one process accumulates.
type Stats struct {
	Leaves  int64
	Skipped int64
	Hits    map[string]int64
	Sets    map[string]map[uint64]struct{}
	Capped  map[string]bool
	Samples []interface{}
}

const setCap = 3000000

func NewStats() *Stats {
	return &Stats{Hits: map[string]int64{}, Sets: map[string]map[uint64]struct{}{}, Capped: map[string]bool{}}
}

func (s *Stats) add(set string, h uint64) {
	m := s.Sets[set]
	if m == nil {
		m = map[uint64]struct{}{}
		s.Sets[set] = m
	}
	if len(m) >= setCap {
		if _, ok := m[h]; !ok {
			s.Capped[set] = true
		}
		return
	}
	m[h] = struct{}{}
}

// Choose returns a value in 0..n-1; the explorer enumerates all of them.
func (c *Ctx) Choose(n int) int { return c.choose(n, false) }

// Deviate is Choose where every answer other than 0 costs one deviation.
func (c *Ctx) Deviate(n int) int { return c.choose(n, true) }

func (c *Ctx) choose(n int, dev bool) int {
	if n <= 0 {
		panic(fmt.Sprintf("explore: Choose(%d)", n))
	}
	if c.pos < len(c.points) {
		p := &c.points[c.pos]
		if p.arity == 0 { // replayed from a bare choice list
			p.arity, p.dev = n, dev
		}
		if p.arity != n || p.dev != dev || p.choice >= n {
			panic(replayDivergence{fmt.Sprintf("choice %d: recorded %d/%d dev=%v, body asks %d dev=%v", c.pos, p.choice, p.arity, p.dev, n, dev)})
		}
		c.pos++
		return p.choice
	}
	if c.maxDepth > 0 && c.pos >= c.maxDepth {
		panic(abort{})
	}
	c.points = append(c.points, point{0, n, dev})
	c.pos++
	return 0
}

// Pick is Choose over a string alphabet.
func (c *Ctx) Pick(alpha []string) string { return alpha[c.Choose(len(alpha))] }

// Bool is Choose(2) == 1.
func (c *Ctx) Bool() bool { return c.Choose(2) == 1 }

// Skip abandons the leaf: the drawn combination is outside the stated space.
func (c *Ctx) Skip() { panic(leafSkip{}) }

// Hit counts one occurrence of a named class (anti-vacuity counters).
func (c *Ctx) Hit(class string) { c.st.Hits[class]++ }

// Fail records a violation on this leaf.
func (c *Ctx) Fail(sig string, detail interface{}) {
	c.fails = append(c.fails, Failure{Sig: c.ID + "|" + sig, Kind: "assertion", Detail: detail})
}

// Failed tells whether this leaf already failed.
func (c *Ctx) Failed() bool { return len(c.fails) > 0 }

// Outcome records a canonical observation of this leaf (counted as distinct).
func (c *Ctx) Outcome(parts ...string) {
	h := Hash(parts...)
	c.obs = append(c.obs, h)
	c.st.add("outcomes", h)
}

// State / Transition record model states and transitions (model_checking evidence).
func (c *Ctx) State(parts ...string) uint64 {
	h := Hash(parts...)
	c.st.add("states", h)
	return h
}

func (c *Ctx) Transition(from uint64, label string, to uint64) {
	c.st.add("transitions", Hash(fmt.Sprint(from), label, fmt.Sprint(to)))
}

// Count adds a member to an arbitrary named set.
func (c *Ctx) Count(set string, parts ...string) { c.st.add(set, Hash(parts...)) }

// ChoiceList returns the choices drawn so far on this leaf.
func (c *Ctx) ChoiceList() []int { return choicesOf(c.points[:c.pos]) }

// Describe registers a lazily evaluated description of the leaf (evidence samples, replay files).
func (c *Ctx) Describe(f func() interface{}) { c.describe = f }

// Logf prints in replay mode only.
func (c *Ctx) Logf(format string, a ...interface{}) {
	if c.Verbose {
		fmt.Printf(format+"\n", a...)
	}
}

func Hash(parts ...string) uint64 {
	h := fnv.New64a()
	for _, p := range parts {
		h.Write([]byte(p))
		h.Write([]byte{0})
	}
	return h.Sum64()
}

// Body is a check body.
type Body func(c *Ctx)

// Explorer enumerates the subtree below a prefix.
type Explorer struct {
	ID       string
	Body     Body
	Thorough bool
	DevBound int // -1 unbounded
	Stats    *Stats

	// CurHook, when set, is called with the choice stack before each leaf (crash attribution).
	CurHook func(choices []int)
	// Stop, when set, is polled; returning true abandons the exploration (deadline).
	Stop func() bool

	Failures    map[string]*Failure // first failure per signature
	FailCounts  map[string]int64
	doubleRuns  int
	Aborted     bool
	sampleEvery int64
}

func New(id string, body Body, thorough bool) *Explorer {
	return &Explorer{ID: id, Body: body, Thorough: thorough, DevBound: -1, Stats: NewStats(),
		Failures: map[string]*Failure{}, FailCounts: map[string]int64{}, doubleRuns: 300}
}

type leafResult struct {
	points  []point
	fails   []Failure
	obs     []uint64
	skipped bool
	aborted bool
	desc    func() interface{}
}

// runLeaf runs the body once on the given choice stack (extended with zeros).
func (e *Explorer) runLeaf(points []point, maxDepth int, st *Stats, verbose bool) (res leafResult) {
	c := &Ctx{ID: e.ID, Thorough: e.Thorough, Verbose: verbose, points: points, maxDepth: maxDepth, devBound: e.DevBound, st: st}
	defer func() {
		r := recover()
		res.points = c.points
		res.fails = c.fails
		res.obs = c.obs
		res.desc = c.describe
		switch v := r.(type) {
		case nil:
		case abort:
			res.aborted = true
		case leafSkip:
			res.skipped = true
		case replayDivergence:
			panic("explore: replay divergence: " + v.msg)
		default:
			res.fails = append(res.fails, Failure{Sig: e.ID + "|panic|" + panicSite(), Kind: "panic", Detail: map[string]interface{}{"panic": fmt.Sprint(r), "stack": shortStack()}})
		}
	}()
	e.Body(c)
	return
}

// panicSite names the innermost go-flags function on the panicking stack.
// PanicSite names the innermost go-flags function on the panicking stack (call from a deferred function).
func PanicSite() string { return panicSite() }

func panicSite() string {
	pcs := make([]uintptr, 64)
	n := runtime.Callers(3, pcs)
	frames := runtime.CallersFrames(pcs[:n])
	first := ""
	for {
		f, more := frames.Next()
		if strings.Contains(f.Function, "jessevdk/go-flags.") {
			return f.Function[strings.LastIndex(f.Function, "/")+1:]
		}
		if first == "" && !strings.HasPrefix(f.Function, "runtime.") {
			first = f.Function
		}
		if !more {
			break
		}
	}
	return "harness:" + first
}

func shortStack() []string {
	pcs := make([]uintptr, 64)
	n := runtime.Callers(3, pcs)
	frames := runtime.CallersFrames(pcs[:n])
	var out []string
	for {
		f, more := frames.Next()
		if !strings.HasPrefix(f.Function, "runtime.") {
			out = append(out, fmt.Sprintf("%s:%d", f.Function, f.Line))
		}
		if !more || len(out) >= 12 {
			break
		}
	}
	return out
}

func choicesOf(p []point) []int {
	out := make([]int, len(p))
	for i := range p {
		out[i] = p[i].choice
	}
	return out
}

// advance moves the stack to the next leaf in depth-first order without
// touching the first `keep` points; false when the subtree is exhausted.
func (e *Explorer) advance(points []point, keep int) ([]point, bool) {
	for i := len(points) - 1; i >= keep; i-- {
		p := points[i]
		if p.choice+1 < p.arity {
			if p.dev && e.DevBound >= 0 {
				devs := 0
				for j := 0; j < i; j++ {
					if points[j].dev && points[j].choice != 0 {
						devs++
					}
				}
				if devs+1 > e.DevBound {
					continue
				}
			}
			points = points[:i+1]
			points[i].choice++
			return points, true
		}
	}
	return nil, false
}

func prefixPoints(prefix []int) []point {
	pts := make([]point, len(prefix))
	for i, c := range prefix {
		pts[i] = point{choice: c}
	}
	return pts
}

// Expand lists every choice prefix of length depth (or every shorter complete leaf).
func (e *Explorer) Expand(depth int) [][]int {
	var out [][]int
	st := NewStats()
	points := []point{}
	for {
		res := e.runLeaf(points, depth, st, false)
		pts := res.points
		if len(pts) > depth {
			pts = pts[:depth]
		}
		out = append(out, choicesOf(pts))
		var ok bool
		points, ok = e.advance(append([]point{}, pts...), 0)
		if !ok {
			break
		}
	}
	return out
}

// Run explores the whole subtree below prefix.
func (e *Explorer) Run(prefix []int) {
	points := prefixPoints(prefix)
	keep := len(prefix)
	for {
		if e.Stop != nil && e.Stats.Leaves&1023 == 0 && e.Stop() {
			e.Aborted = true
			return
		}
		if e.CurHook != nil {
			e.CurHook(choicesOf(points))
		}
		res := e.runLeaf(points, 0, e.Stats, false)
		if res.skipped {
			e.Stats.Skipped++
		} else {
			e.Stats.Leaves++
			if e.doubleRuns > 0 {
				// ownership of nondeterminism: the same choices must observe the same
				e.doubleRuns--
				again := e.runLeaf(append([]point{}, res.points...), 0, NewStats(), false)
				if !sameObs(res, again) {
					res.fails = append(res.fails, Failure{Sig: e.ID + "|nondeterministic-leaf", Kind: "nondeterministic",
						Detail: map[string]interface{}{"first": sigs(res.fails), "second": sigs(again.fails)}})
				}
			}
			if res.desc != nil && (e.Stats.Leaves == 1 || (e.sampleEvery > 0 && e.Stats.Leaves%e.sampleEvery == 0)) && len(e.Stats.Samples) < 4 {
				e.Stats.Samples = append(e.Stats.Samples, safeDesc(res.desc))
			}
		}
		for i := range res.fails {
			f := res.fails[i]
			e.FailCounts[f.Sig]++
			if _, seen := e.Failures[f.Sig]; !seen {
				f.Choices = choicesOf(res.points)
				if f.Kind != "nondeterministic" {
					f.Repro = e.reproduce(f.Choices, f.Sig)
				}
				if res.desc != nil {
					f.Detail = map[string]interface{}{"case": safeDesc(res.desc), "what": f.Detail}
				}
				e.Failures[f.Sig] = &f
			}
		}
		var ok bool
		points, ok = e.advance(res.points, keep)
		if !ok {
			return
		}
	}
}

func safeDesc(f func() interface{}) (v interface{}) {
	defer func() {
		if r := recover(); r != nil {
			v = fmt.Sprint("describe panicked: ", r)
		}
	}()
	return f()
}

func sigs(fs []Failure) []string {
	var out []string
	for _, f := range fs {
		out = append(out, f.Sig)
	}
	sort.Strings(out)
	return out
}

func sameObs(a, b leafResult) bool {
	if len(a.obs) != len(b.obs) || a.skipped != b.skipped {
		return false
	}
	for i := range a.obs {
		if a.obs[i] != b.obs[i] {
			return false
		}
	}
	return strings.Join(sigs(a.fails), ";") == strings.Join(sigs(b.fails), ";")
}

// reproduce re-runs a recorded choice list 5 times and counts how often the same signature fails.
func (e *Explorer) reproduce(choices []int, sig string) int {
	n := 0
	for i := 0; i < 5; i++ {
		res := e.runLeaf(prefixPoints(choices), 0, NewStats(), false)
		for _, f := range res.fails {
			if f.Sig == sig {
				n++
				break
			}
		}
	}
	return n
}

// Replay runs one recorded leaf verbosely and returns its failures.
func (e *Explorer) Replay(choices []int) ([]Failure, interface{}) {
	res := e.runLeaf(prefixPoints(choices), 0, NewStats(), true)
	var d interface{}
	if res.desc != nil {
		d = safeDesc(res.desc)
	}
	return res.fails, d
}
