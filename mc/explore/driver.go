package explore

import (
	"bufio"
	"encoding/binary"
	"encoding/json"
	"fmt"
	"io"
	"os"
	"os/exec"
	"path/filepath"
	"runtime"
	"runtime/debug"
	"sort"
	"strings"
	"sync"
	"sync/atomic"
	"syscall"
	"time"
)

// Check is what a property file registers.
type Check struct {
	ID          string
	Level       string // evidence level: model_checking | exploration | fault_enumeration
	Rule        string
	Assumptions []string
	ShardDepth  int
	Body        Body
	// Setup runs once per process that executes bodies (workers, replay).
	Setup func(thorough bool, scratch string) error
	// DevBound returns the deviation bound for Deviate points (-1 = none).
	DevBound func(thorough bool) int
	// BudgetS is the internal wall budget {quick, thorough}; when hit the run
	// stops with exhaustive:false and exit 0.
	BudgetS [2]int
	// RequiredHits are classes that must have been hit at least once (anti-vacuity).
	RequiredHits []string
	// Bound describes the bound completed by a full run, per tier.
	Bound [2]string
	// Extra lets a check add keys to the evidence coverage.
	Extra func(thorough bool) map[string]interface{}
	// Workers overrides the worker count (0 = one per core).
	Workers int
}

var Registry = map[string]*Check{}

func Register(c *Check) { Registry[c.ID] = c }

// VerifDir is where known findings are read and evidence / replays are written (run.sh sets VERIF_DIR to its own directory).
var VerifDir = func() string {
	if d := os.Getenv("VERIF_DIR"); d != "" {
		return d
	}
	return "/verif"
}()

type itemMsg struct {
	Item   int   `json:"item"`
	Prefix []int `json:"prefix"`
}

type resultMsg struct {
	Item     int              `json:"item"`
	Done     bool             `json:"done,omitempty"`
	Leaves   int64            `json:"leaves"`
	Skipped  int64            `json:"skipped"`
	Hits     map[string]int64 `json:"hits,omitempty"`
	Fails    []*Failure       `json:"fails,omitempty"`
	FailCnt  map[string]int64 `json:"failcnt,omitempty"`
	Aborted  bool             `json:"aborted,omitempty"`
	Samples  []interface{}    `json:"samples,omitempty"`
	Capped   []string         `json:"capped,omitempty"`
	HangSelf bool             `json:"hang,omitempty"`
}

// ---------------------------------------------------------------- worker

// WorkerMain is the entry point of a worker process.
func WorkerMain(chk *Check, thorough bool, scratch string, wid int, deadline time.Time) {
	runtime.GOMAXPROCS(2)
	debug.SetGCPercent(400)
	out := os.NewFile(3, "results")
	if out == nil {
		fmt.Fprintln(os.Stderr, "worker: fd 3 missing")
		os.Exit(2)
	}
	enc := json.NewEncoder(out)
	// work items arrive on the original standard input; keep a private copy so that Setup may replace fd 0 (C17 attaches a pty)
	inFd, err := syscall.Dup(0)
	if err != nil {
		fmt.Fprintln(os.Stderr, "worker: dup stdin:", err)
		os.Exit(2)
	}
	inFile := os.NewFile(uintptr(inFd), "items")
	if chk.Setup != nil {
		if err := chk.Setup(thorough, scratch); err != nil {
			fmt.Fprintln(os.Stderr, "worker setup:", err)
			os.Exit(2)
		}
	}
	cur := mapCurFile(filepath.Join(scratch, fmt.Sprintf("w%d.cur", wid)))
	ex := New(chk.ID, chk.Body, thorough)
	if chk.DevBound != nil {
		ex.DevBound = chk.DevBound(thorough)
	}
	ex.sampleEvery = 50021
	var leafSeq int64
	ex.CurHook = func(ch []int) {
		atomic.AddInt64(&leafSeq, 1)
		writeCur(cur, ch)
	}
	ex.Stop = func() bool { return time.Now().After(deadline) }
	// hang watchdog: a leaf normally takes microseconds
	go func() {
		last, since := int64(-1), time.Now()
		for {
			time.Sleep(2 * time.Second)
			v := atomic.LoadInt64(&leafSeq)
			if v != last {
				last, since = v, time.Now()
				continue
			}
			if last > 0 && time.Since(since) > 25*time.Second && atomic.LoadInt32(&busy) == 1 {
				enc.Encode(resultMsg{Item: -1, HangSelf: true})
				os.Exit(3)
			}
		}
	}()
	in := bufio.NewReader(inFile)
	for {
		line, err := in.ReadBytes('\n')
		if len(line) > 0 {
			var it itemMsg
			if json.Unmarshal(line, &it) != nil {
				fmt.Fprintln(os.Stderr, "worker: bad item", string(line))
				os.Exit(2)
			}
			before := *ex.Stats
			beforeHits := map[string]int64{}
			for k, v := range ex.Stats.Hits {
				beforeHits[k] = v
			}
			ex.Failures = map[string]*Failure{}
			ex.FailCounts = map[string]int64{}
			ex.Aborted = false
			atomic.StoreInt32(&busy, 1)
			ex.Run(it.Prefix)
			atomic.StoreInt32(&busy, 0)
			res := resultMsg{Item: it.Item, Leaves: ex.Stats.Leaves - before.Leaves, Skipped: ex.Stats.Skipped - before.Skipped,
				Hits: map[string]int64{}, Aborted: ex.Aborted, FailCnt: ex.FailCounts}
			for k, v := range ex.Stats.Hits {
				if d := v - beforeHits[k]; d != 0 {
					res.Hits[k] = d
				}
			}
			for _, f := range ex.Failures {
				res.Fails = append(res.Fails, f)
			}
			if err := enc.Encode(res); err != nil {
				os.Exit(2)
			}
		}
		if err != nil {
			break
		}
	}
	// final: dump sets
	writeSets(filepath.Join(scratch, fmt.Sprintf("w%d.sets", wid)), ex.Stats)
	fin := resultMsg{Item: -1, Done: true, Samples: ex.Stats.Samples}
	for k := range ex.Stats.Capped {
		fin.Capped = append(fin.Capped, k)
	}
	enc.Encode(fin)
	os.Exit(0)
}

var busy int32

func mapCurFile(path string) []byte {
	f, err := os.OpenFile(path, os.O_RDWR|os.O_CREATE|os.O_TRUNC, 0600)
	if err != nil {
		return nil
	}
	defer f.Close()
	f.Truncate(4096)
	b, err := syscall.Mmap(int(f.Fd()), 0, 4096, syscall.PROT_READ|syscall.PROT_WRITE, syscall.MAP_SHARED)
	if err != nil {
		return nil
	}
	return b
}

func writeCur(b []byte, ch []int) {
	if b == nil {
		return
	}
	n := len(ch)
	if n > 1000 {
		n = 1000
	}
	binary.LittleEndian.PutUint32(b[0:], uint32(n))
	for i := 0; i < n; i++ {
		binary.LittleEndian.PutUint32(b[4+4*i:], uint32(ch[i]))
	}
}

func readCur(path string) []int {
	b, err := os.ReadFile(path)
	if err != nil || len(b) < 4 {
		return nil
	}
	n := int(binary.LittleEndian.Uint32(b))
	if n > 1000 || 4+4*n > len(b) {
		return nil
	}
	out := make([]int, n)
	for i := range out {
		out[i] = int(binary.LittleEndian.Uint32(b[4+4*i:]))
	}
	return out
}

func writeSets(path string, st *Stats) {
	f, err := os.Create(path)
	if err != nil {
		return
	}
	w := bufio.NewWriterSize(f, 1<<20)
	names := make([]string, 0, len(st.Sets))
	for k := range st.Sets {
		names = append(names, k)
	}
	sort.Strings(names)
	var buf [8]byte
	for _, name := range names {
		fmt.Fprintf(w, "%s %d\n", name, len(st.Sets[name]))
		for h := range st.Sets[name] {
			binary.LittleEndian.PutUint64(buf[:], h)
			w.Write(buf[:])
		}
	}
	w.Flush()
	f.Close()
}

func readSets(path string, into map[string]map[uint64]struct{}) {
	f, err := os.Open(path)
	if err != nil {
		return
	}
	defer f.Close()
	r := bufio.NewReaderSize(f, 1<<20)
	for {
		var name string
		var n int
		if _, err := fmt.Fscanf(r, "%s %d\n", &name, &n); err != nil {
			return
		}
		m := into[name]
		if m == nil {
			m = map[uint64]struct{}{}
			into[name] = m
		}
		var buf [8]byte
		for i := 0; i < n; i++ {
			if _, err := io.ReadFull(r, buf[:]); err != nil {
				return
			}
			if len(m) < 4*setCap {
				m[binary.LittleEndian.Uint64(buf[:])] = struct{}{}
			}
		}
	}
}

// ---------------------------------------------------------------- known findings

type knownFinding struct {
	Property string
	Sig      string
	What     string
}

// loadKnown reads /verif/known_findings.txt. Lines:
//
//	known: property=<id> signature=<sig> :: <what fails>
//	fixed: property=<id> <commit> <what failed>          (suppresses nothing)
func loadKnown() []knownFinding {
	b, err := os.ReadFile(filepath.Join(VerifDir, "known_findings.txt"))
	if err != nil {
		return nil
	}
	var out []knownFinding
	for _, line := range strings.Split(string(b), "\n") {
		line = strings.TrimSpace(line)
		if !strings.HasPrefix(line, "known:") {
			continue
		}
		rest := strings.TrimSpace(strings.TrimPrefix(line, "known:"))
		what := ""
		if i := strings.Index(rest, " :: "); i >= 0 {
			what = rest[i+4:]
			rest = rest[:i]
		}
		k := knownFinding{What: what}
		// signature= runs to the end of the head (signatures may contain blanks)
		if i := strings.Index(rest, "signature="); i >= 0 {
			k.Sig = strings.TrimSpace(rest[i+len("signature="):])
			rest = rest[:i]
		}
		for _, f := range strings.Fields(rest) {
			if strings.HasPrefix(f, "property=") {
				k.Property = f[len("property="):]
			}
		}
		if k.Property != "" && k.Sig != "" {
			out = append(out, k)
		}
	}
	return out
}

func matchKnown(known []knownFinding, id, sig string) *knownFinding {
	for i := range known {
		k := &known[i]
		if k.Property != id {
			continue
		}
		if k.Sig == sig {
			return k
		}
	}
	return nil
}

// ---------------------------------------------------------------- coordinator

type workerProc struct {
	id     int
	cmd    *exec.Cmd
	stdin  io.WriteCloser
	res    *bufio.Reader
	item   int // item in flight, -1 none
	closed bool
}

// RunCheck is the coordinator; it returns the process exit code.
func RunCheck(chk *Check, thorough bool) int {
	start := time.Now()
	tier := "quick"
	ti := 0
	if thorough {
		tier, ti = "thorough", 1
	}
	seed := 0
	fmt.Sscan(os.Getenv("VERIF_SEED"), &seed)
	scratch, err := os.MkdirTemp("", "verif-"+chk.ID+"-")
	if err != nil {
		fmt.Fprintln(os.Stderr, "scratch:", err)
		return 2
	}
	defer os.RemoveAll(scratch)

	budget := time.Duration(chk.BudgetS[ti]) * time.Second
	if budget == 0 {
		budget = 100 * time.Second
		if thorough {
			budget = 25 * time.Minute
		}
	}
	if v := os.Getenv("VERIF_BUDGET_S"); v != "" {
		var s int
		if _, err := fmt.Sscan(v, &s); err == nil && s > 0 {
			budget = time.Duration(s) * time.Second
		}
	}
	deadline := start.Add(budget)

	// expansion (in-process; bodies abort at ShardDepth)
	ex := New(chk.ID, chk.Body, thorough)
	if chk.DevBound != nil {
		ex.DevBound = chk.DevBound(thorough)
	}
	depth := chk.ShardDepth
	if depth <= 0 {
		depth = 1
	}
	// expansion runs bodies only up to ShardDepth choices; it must not need Setup (which may redirect process-global state)
	savedOut, savedErr := os.Stdout, os.Stderr
	if devnull, err := os.OpenFile(os.DevNull, os.O_WRONLY, 0); err == nil {
		// leaves shorter than the expansion depth run to completion here; whatever the library prints is not ours
		os.Stdout, os.Stderr = devnull, devnull
	}
	items := ex.Expand(depth)
	os.Stdout, os.Stderr = savedOut, savedErr
	nw := runtime.NumCPU()
	if nw > 16 {
		nw = 16
	}
	if chk.Workers > 0 {
		nw = chk.Workers
	}
	if nw > len(items) {
		nw = len(items)
	}
	if v := os.Getenv("VERIF_WORKERS"); v != "" {
		fmt.Sscan(v, &nw)
	}

	type agg struct {
		leaves, skipped int64
		hits            map[string]int64
		fails           map[string]*Failure
		failcnt         map[string]int64
		samples         []interface{}
		capped          map[string]bool
		aborted         bool
		itemsDone       int
	}
	a := &agg{hits: map[string]int64{}, fails: map[string]*Failure{}, failcnt: map[string]int64{}, capped: map[string]bool{}}
	var mu sync.Mutex
	next := 0
	takeItem := func() (int, bool) {
		mu.Lock()
		defer mu.Unlock()
		if next >= len(items) || time.Now().After(deadline) {
			if next < len(items) {
				a.aborted = true
			}
			return 0, false
		}
		next++
		return next - 1, true
	}
	addFail := func(f *Failure) {
		if old, ok := a.fails[f.Sig]; !ok || len(f.Choices) < len(old.Choices) {
			a.fails[f.Sig] = f
		}
	}

	exe, _ := os.Executable()
	var wg sync.WaitGroup
	for w := 0; w < nw; w++ {
		wg.Add(1)
		go func(w int) {
			defer wg.Done()
			for gen := 0; ; gen++ { // a worker that dies is replaced
				wid := w*1000 + gen
				cmd := exec.Command(exe, "worker", chk.ID, tier, scratch, fmt.Sprint(wid), fmt.Sprint(deadline.UnixNano()))
				cmd.Env = append(os.Environ(), "GOMAXPROCS=2")
				stdin, _ := cmd.StdinPipe()
				pr, pw, _ := os.Pipe()
				cmd.ExtraFiles = []*os.File{pw}
				logf, _ := os.Create(filepath.Join(scratch, fmt.Sprintf("w%d.log", wid)))
				cmd.Stdout, cmd.Stderr = logf, logf
				if err := cmd.Start(); err != nil {
					fmt.Fprintln(os.Stderr, "cannot start worker:", err)
					return
				}
				pw.Close()
				res := bufio.NewReaderSize(pr, 1<<20)
				died := false
				hung := false
				inflight := -1
				for {
					it, ok := takeItem()
					if !ok {
						break
					}
					inflight = it
					b, _ := json.Marshal(itemMsg{Item: it, Prefix: items[it]})
					if _, err := stdin.Write(append(b, '\n')); err != nil {
						died = true
						break
					}
					line, err := res.ReadBytes('\n')
					if err != nil {
						died = true
						break
					}
					var r resultMsg
					if json.Unmarshal(line, &r) != nil || r.HangSelf {
						died = true
						if r.HangSelf {
							hung = true
						}
						break
					}
					inflight = -1
					mu.Lock()
					a.leaves += r.Leaves
					a.skipped += r.Skipped
					a.itemsDone++
					for k, v := range r.Hits {
						a.hits[k] += v
					}
					for k, v := range r.FailCnt {
						a.failcnt[k] += v
					}
					for _, f := range r.Fails {
						addFail(f)
					}
					if r.Aborted {
						a.aborted = true
					}
					mu.Unlock()
				}
				if !died {
					stdin.Close()
					for {
						line, err := res.ReadBytes('\n')
						if err != nil {
							break
						}
						var r resultMsg
						if json.Unmarshal(line, &r) == nil && r.Done {
							mu.Lock()
							a.samples = append(a.samples, r.Samples...)
							for _, c := range r.Capped {
								a.capped[c] = true
							}
							mu.Unlock()
						}
					}
					cmd.Wait()
					pr.Close()
					logf.Close()
					return
				}
				// the worker died (panic outside recover, os.Exit, fatal error, hang)
				stdin.Close()
				cmd.Process.Kill()
				cmd.Wait()
				pr.Close()
				logf.Close()
				tail := tailFile(filepath.Join(scratch, fmt.Sprintf("w%d.log", wid)), 1500)
				cur := readCur(filepath.Join(scratch, fmt.Sprintf("w%d.cur", wid)))
				kind := "crash"
				if hung {
					kind = "hang"
				}
				f := &Failure{Sig: chk.ID + "|worker-died", Kind: kind, Choices: cur,
					Detail: map[string]interface{}{"item_prefix": items[inflightOr(inflight)], "exit": cmd.ProcessState.String(), "log_tail": tail}}
				mu.Lock()
				addFail(f)
				a.failcnt[f.Sig]++
				a.aborted = true
				mu.Unlock()
				// a dead worker is not replaced: the violation is established, the rest of the space is reported as not covered
				return
			}
		}(w)
	}
	wg.Wait()

	// merge sets
	sets := map[string]map[uint64]struct{}{}
	files, _ := filepath.Glob(filepath.Join(scratch, "w*.sets"))
	for _, f := range files {
		readSets(f, sets)
	}

	// classify failures
	known := loadKnown()
	exit := 0
	var sigsSorted []string
	for s := range a.fails {
		sigsSorted = append(sigsSorted, s)
	}
	sort.Strings(sigsSorted)
	var knownMet []string
	violations := 0
	os.MkdirAll(filepath.Join(VerifDir, "replays"), 0755)
	for _, s := range sigsSorted {
		f := a.fails[s]
		if k := matchKnown(known, chk.ID, s); k != nil {
			fmt.Printf("KNOWN-FINDING: property=%s %s (signature %s, %d leaves)\n", chk.ID, k.What, s, a.failcnt[s])
			knownMet = append(knownMet, s)
			continue
		}
		violations++
		exit = 1
		path := filepath.Join(VerifDir, "replays", fmt.Sprintf("%s-%016x.json", chk.ID, Hash(s)))
		rf := map[string]interface{}{"property": chk.ID, "tier": tier, "signature": s, "kind": f.Kind, "choices": f.Choices,
			"reproduced_of_5": f.Repro, "leaves_with_this_signature": a.failcnt[s], "detail": f.Detail,
			"replay_cmd": fmt.Sprintf("%s/run.sh replay %s", VerifDir, path)}
		b, _ := json.MarshalIndent(rf, "", " ")
		os.WriteFile(path, b, 0644)
		fmt.Printf("VIOLATION property=%s replay=%s\n", chk.ID, path)
		fmt.Printf("  signature=%s kind=%s leaves=%d\n", s, f.Kind, a.failcnt[s])
	}

	// vacuity
	exhaustive := !a.aborted
	var empty []string
	for _, h := range chk.RequiredHits {
		if a.hits[h] == 0 {
			empty = append(empty, h)
		}
	}
	if len(empty) > 0 && violations == 0 {
		fmt.Printf("NOTE property=%s classes never reached: %v (run downgraded to exhaustive:false)\n", chk.ID, empty)
		exhaustive = false
	}

	cov := map[string]interface{}{
		"evaluations":         a.leaves,
		"distinct_nontrivial": len(sets["outcomes"]),
		"rule":                chk.Rule,
		"samples":             capSamples(a.samples, 6),
		"exhaustive":          exhaustive,
		"bound_completed":     chk.Bound[ti],
		"per_class_hits":      a.hits,
		"skipped_leaves":      a.skipped,
		"work_items":          len(items),
		"work_items_done":     a.itemsDone,
		"workers":             nw,
		"known_findings_met":  knownMet,
		"budget_s":            int(budget / time.Second),
	}
	if a.aborted {
		cov["stopped_early"] = "internal deadline or worker death: the listed counts are what was covered"
	}
	if len(empty) > 0 {
		cov["classes_never_reached"] = empty
	}
	for k := range a.capped {
		cov["set_capped_"+k] = true
	}
	if chk.Level == "model_checking" {
		cov["states"] = len(sets["states"])
		cov["transitions"] = len(sets["transitions"])
		cov["traces_validated_against_impl"] = a.leaves
	}
	for name, m := range sets {
		if name != "outcomes" && name != "states" && name != "transitions" {
			cov["distinct_"+name] = len(m)
		}
	}
	if chk.Extra != nil {
		for k, v := range chk.Extra(thorough) {
			cov[k] = v
		}
	}
	if len(a.samples) == 0 {
		cov["samples"] = []interface{}{fmt.Sprintf("first work item prefix %v", items[0])}
	}
	ev := map[string]interface{}{
		"property_id": chk.ID,
		"tier":        tier,
		"seed":        seed,
		"level":       chk.Level,
		"coverage":    cov,
		"assumptions": chk.Assumptions,
		"wall_s":      time.Since(start).Seconds(),
		"violations":  violations,
	}
	os.MkdirAll(filepath.Join(VerifDir, "evidence"), 0755)
	b, _ := json.MarshalIndent(ev, "", " ")
	if err := os.WriteFile(filepath.Join(VerifDir, "evidence", chk.ID+".json"), b, 0644); err != nil {
		fmt.Fprintln(os.Stderr, "evidence:", err)
		return 2
	}
	fmt.Printf("%s %s: leaves=%d skipped=%d outcomes=%d states=%d transitions=%d items=%d/%d exhaustive=%v violations=%d known=%d wall=%.1fs\n",
		chk.ID, tier, a.leaves, a.skipped, len(sets["outcomes"]), len(sets["states"]), len(sets["transitions"]), a.itemsDone, len(items), exhaustive, violations, len(knownMet), time.Since(start).Seconds())
	return exit
}

func inflightOr(i int) int {
	if i < 0 {
		return 0
	}
	return i
}

func capSamples(s []interface{}, n int) []interface{} {
	if len(s) <= n {
		return s
	}
	// first, spread, last
	out := []interface{}{}
	for i := 0; i < n; i++ {
		out = append(out, s[i*(len(s)-1)/(n-1)])
	}
	return out
}

func tailFile(path string, n int) string {
	b, err := os.ReadFile(path)
	if err != nil {
		return ""
	}
	if len(b) > n {
		b = b[len(b)-n:]
	}
	return string(b)
}

// ReplayFile re-executes one recorded violation without the explorer.
func ReplayFile(path string) int {
	b, err := os.ReadFile(path)
	if err != nil {
		fmt.Fprintln(os.Stderr, err)
		return 2
	}
	var rf struct {
		Property  string `json:"property"`
		Tier      string `json:"tier"`
		Signature string `json:"signature"`
		Choices   []int  `json:"choices"`
	}
	if err := json.Unmarshal(b, &rf); err != nil {
		fmt.Fprintln(os.Stderr, err)
		return 2
	}
	chk := Registry[rf.Property]
	if chk == nil {
		fmt.Fprintln(os.Stderr, "unknown property", rf.Property)
		return 2
	}
	thorough := rf.Tier == "thorough"
	scratch, _ := os.MkdirTemp("", "verif-replay-")
	defer os.RemoveAll(scratch)
	if chk.Setup != nil {
		if err := chk.Setup(thorough, scratch); err != nil {
			fmt.Fprintln(os.Stderr, "setup:", err)
			return 2
		}
	}
	ex := New(chk.ID, chk.Body, thorough)
	if chk.DevBound != nil {
		ex.DevBound = chk.DevBound(thorough)
	}
	fails, desc := ex.Replay(rf.Choices)
	d, _ := json.MarshalIndent(desc, "", " ")
	fmt.Printf("case: %s\n", d)
	if len(fails) == 0 {
		fmt.Println("replay: no failure on this tree")
		return 0
	}
	for _, f := range fails {
		dd, _ := json.MarshalIndent(f.Detail, "", " ")
		fmt.Printf("FAIL %s (%s)\n%s\n", f.Sig, f.Kind, dd)
	}
	return 1
}
