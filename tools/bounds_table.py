#!/usr/bin/env python3
"""bounds_table.py — rewrites the last column (leaves and wall time of the latest quick run) of the table in DESIGN.md §10.2 from /verif/evidence/*.json."""
import json, re
p = '/verif/DESIGN.md'
s = open(p).read()
tot = 0
def repl(m):
    global tot
    pid = m.group(1)
    e = json.load(open('/verif/evidence/%s.json' % pid))
    cov = e['coverage']
    n = cov.get('evaluations', 0)
    tot += n
    wall = cov.get('wall_s') or e.get('wall_s') or 0
    cells = m.group(0).rstrip('|\n').split('|')
    unit = 'M'
    cells[-1] = ' %.2f M (%s s) ' % (n / 1e6, int(round(float(wall)))) if wall else ' %.2f M ' % (n / 1e6)
    return '|'.join(cells) + '|\n'
a = s.index('### 10.2 '); b = s.index('### 10.3 ')
s = s[:a] + re.sub(r'^\| (C\d\d) \|[^\n]*\|\n', repl, s[a:b], count=20, flags=re.M) + s[b:]
open(p, 'w').write(s)
print('total leaves (M):', round(tot / 1e6, 1))
