#!/bin/bash
# tools/import_seeded.sh CNN   copies the sub-agent's deliverables from /tmp/wt/CNN into /verif/seeded/CNN-{1,2}/ and confirms them
set -u
id="$1"; w=${2:-/tmp/wt}/$id; off=${3:-0}
export GOFLAGS=-mod=mod GOPROXY=off GOSUMDB=off GOTOOLCHAIN=local
for i in 1 2 3 4 5; do
  [ -f $w/change$i.diff ] || continue
  d=/verif/seeded/$id-$((i+off)); mkdir -p $d
  cp $w/change$i.diff $d/patch.diff; cp $w/demo${i}_test.go.txt $d/demo_test.go.txt 2>/dev/null
  cp $w/SEEDED.md $d/SEEDED.md 2>/dev/null
  # confirmation in a scratch worktree (never in /repo)
  s=$(mktemp -d /tmp/confirm.XXXX); git -C /repo worktree add -q --detach $s HEAD
  cp $d/demo_test.go.txt $s/zz_seeded_demo_test.go
  clean=$(cd $s && go test -vet=off -count=1 -run TestSeeded . 2>&1 | tail -1)
  git -C $s apply $d/patch.diff; ap=$?
  withc=$(cd $s && go test -vet=off -count=1 -run TestSeeded . 2>&1 | tail -1)
  rm -f $s/zz_seeded_demo_test.go
  suite=$(cd $s && go test -vet=off -count=1 ./... 2>&1 | grep -E "^(ok|FAIL|---)" | head -3 | tr '\n' ' ')
  git -C /repo worktree remove --force $s
  echo "$id-$((i+off)): apply=$ap | demo on clean tree: $clean | demo with change: $withc | suite with change: $suite"
  python3 - "$d" "$id" "$clean" "$withc" "$suite" <<'PY'
import json,sys
d,pid,clean,withc,suite=sys.argv[1:6]
meta={"property":pid,"source":"independent sub-agent given only the property text and a scratch worktree","confirmed":{"demo_on_clean_tree":clean,"demo_with_change":withc,"repository_suite_with_change":suite},
      "needs_to_manifest":"see SEEDED.md","what_i_ran":"tools/import_seeded.sh (scratch worktree: demo test on clean tree, with the change, full suite with the change); tools/seeded.sh (checks against /repo with the patch applied, then reverted)"}
json.dump(meta,open(d+"/meta.json","w"),indent=1)
PY
done
