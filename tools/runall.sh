#!/bin/bash
# runs every claimed check's quick (or $1=thorough) command, validates manifest and evidence
tier=${1:-quick}
cd "$(dirname "$0")/.."
fail=0
for id in $(python3 -c "import json;print(' '.join(c['property_id'] for c in json.load(open('MANIFEST.json'))['checks']))"); do
  start=$(date +%s)
  out=$(./run.sh $id $tier 2>&1); rc=$?
  echo "$out" | grep -E "^(VIOLATION|KNOWN-FINDING|NOTE)" | head -20
  echo "$out" | tail -1
  echo "   -> $id exit=$rc $(( $(date +%s) - start ))s"
  [ $rc -ne 0 ] && fail=1
done
python3-vt - <<'PY'
import json,jsonschema,glob
m=json.load(open('/verif/MANIFEST.json'))
jsonschema.validate(m,json.load(open('/root/.vp/MANIFEST.schema.json')))
s=json.load(open('/root/.vp/EVIDENCE.schema.json'))
for c in m['checks']:
    e=json.load(open(c['evidence_file'])); jsonschema.validate(e,s)
    assert e['level']==c['level_claimed']['category'], (c['property_id'], e['level'])
    assert e['property_id']==c['property_id']
print('manifest+evidence valid')
PY
exit $fail
