#!/usr/bin/env python3
"""tools/mutants.py [--dry] [k n] — one-token mutants of /repo (the "spare survivors" that the round-9 sub-agents listed
beside their deliverables: changes that pass the repository's suite and break a property). Each mutant is applied to a
scratch worktree of /repo (never to /repo itself), the repository's suite is run on it, then the quick check of every
property named for it (a private copy of the machinery pointed at the worktree). Results go to
seeded/spare_mutants_results.json. With k n only the mutants with index % n == k are run (parallel streams)."""
import json, os, subprocess, sys, tempfile, shutil

M = [
    # name, properties, file, line, old, new
    ("S01", ["C01", "C02"], "parser.go", 620, "optname[n:]", "optname[1:]"),
    ("S02", ["C02", "C11"], "option.go", 584, "arg[1] <= '9'", "arg[1] < '9'"),
    ("S03", ["C02"], "option.go", 476, "reflect.Float64", "reflect.Complex128"),
    ("S04", ["C01", "C05"], "command.go", 297, "cc.eachCommand(f, true)", "cc.eachCommand(f, false)"),
    ("S05", ["C04"], "parser.go", 501, "len(cmdnames) > 1", "len(cmdnames) != 1"),
    ("S06", ["C04"], "closest.go", 44, "len(choices) == 0", "len(choices) == 1"),
    ("S07", ["C04"], "parser.go", 706, "== ErrHelp", "!= ErrHelp"),
    ("S08", ["C04"], "parser.go", 703, "!= None", "== None"),
    ("S09", ["C04", "C16"], "convert.go", 105, "base == 0", "base == 1"),
    ("S10", ["C05"], "option.go", 183, "g = i.Group", "g = nil"),
    ("S11", ["C06"], "parser.go", 393, "c = c.Active", "c = nil"),
    ("S12", ["C06"], "parser.go", 448, "reqnames[:len(reqnames)-1]", "reqnames[:1]"),
    ("S13", ["C06", "C19"], "group.go", 206, 's == "0"', 's == "1"'),
    ("S14", ["C11", "C09"], "option.go", 253, "len(option.Choices) != 0", "len(option.Choices) > 1"),
    ("S15", ["C10", "C01"], "convert.go", 194, "NumMethod() > 0", "NumMethod() > 1"),
    ("S16", ["C10", "C11"], "convert.go", 259, "tp.Bits()", "64"),
    ("S17", ["C11"], "convert.go", 273, "tp.Bits()", "base"),
    ("S18", ["C11"], "convert.go", 253, "getBase(options, 10)", "getBase(options, 0)"),
    ("S19", ["C12"], "ini.go", 335, ' || strings.HasPrefix(optionValue, "\\"")', ""),
    ("S20", ["C12", "C13", "C14"], "ini.go", 477, 'SplitN(line, "=", 2)', 'SplitN(line, "=", 3)'),
    ("S21", ["C12", "C13"], "ini.go", 617, "&&", "||"),
    ("S22", ["C12"], "ini.go", 309, "true", "false"),
    ("S23", ["C12", "C14"], "ini.go", 500, "len(value) != 0", "len(value) != 1"),
    ("S24", ["C12"], "convert.go", 108, "base = 10", "base = 16"),
    ("S25", ["C13"], "group.go", 170, "prio < 2", "prio < 4"),
    ("S26", ["C13", "C14"], "ini.go", 455, "strings.TrimSpace(", "("),
    ("S27", ["C14"], "ini.go", 182, "if !more", "if more"),
    ("S28", ["C14"], "ini.go", 604, "continue", "break"),
    ("S29", ["C14"], "ini.go", 660, "LineNumber: inival.LineNumber,", ""),
    ("S30", ["C16"], "help.go", 217, "len(option.Choices) > 0", "len(option.Choices) > 1"),
    ("S31", ["C16"], "help.go", 496, "len(c.Aliases) > 0", "len(c.Aliases) > 1"),
    ("S32", ["C16"], "help.go", 492, "len(c.ShortDescription) > 0", "len(c.ShortDescription) > 1"),
    ("S33", ["C16"], "help.go", 213, "len(option.ValueName) > 0", "len(option.ValueName) > 1"),
    ("S34", ["C16", "C17"], "help.go", 457, "len(arg.Description) > 0", "len(arg.Description) > 1"),
    ("S35", ["C16"], "man.go", 81, "len(opt.LongName) != 0", "len(opt.LongName) > 1"),
    ("S36", ["C16"], "man.go", 89, "len(opt.ValueName) != 0", "len(opt.ValueName) > 1"),
    ("S37", ["C16"], "man.go", 117, "len(opt.Description) != 0", "len(opt.Description) > 1"),
    ("S38", ["C16"], "man.go", 180, "len(command.Aliases) > 0", "len(command.Aliases) > 1"),
    ("S39", ["C16"], "man.go", 98, 'opt.DefaultMask != "-"', 'opt.DefaultMask == "-"'),
    ("S40", ["C16", "C17"], "help.go", 273, "s[1:]", "s[2:]"),
    ("S41", ["C16"], "option.go", 537, "Len() > 0", "Len() > 1"),
    ("S42", ["C17"], "help.go", 222, "utf8.RuneCount(line.Bytes())", "line.Len()"),
    ("S43", ["C17"], "help.go", 462, "utf8.RuneCountInString(argPrefix)", "len(argPrefix)"),
    ("S44", ["C17"], "help.go", 132, "n < l", "n <= l"),
    ("S45", ["C17"], "help.go", 133, "line[cut:]", "line[n:]"),
    ("S46", ["C18"], "completion.go", 208, "len(s.args)-1", "len(s.args)"),
    ("S47", ["C18"], "completion.go", 241, "len(s.args)-1", "len(s.args)"),
    ("S48", ["C18"], "completion.go", 248, " && !o.OptionalArgument", ""),
    ("S49", ["C18"], "completion.go", 275, " && len(s.retargs) == 0", ""),
    ("S50", ["C18"], "completion.go", 229, "break", "continue"),
    ("S51", ["C19"], "multitag.go", 73, "i++", "_ = i"),
    ("S52", ["C19"], "multitag.go", 41, "v[i] != ' ' && ", ""),
    ("S53", ["C19"], "multitag.go", 121, "v[len(v)-1]", "v[0]"),
    ("S54", ["C19"], "group.go", 371, "len(subgroup) != 0", "len(subgroup) > 1"),
    ("S55", ["C19", "C08"], "command.go", 261, "len(subcommandsOptional) > 0", "len(subcommandsOptional) > 1"),
    ("S56", ["C19", "C06"], "command.go", 185, "required := -1", "required := 0"),
    ("S57", ["C19", "C01"], "option.go", 456, "tp.Implements(unmarshaler) || reflect", "tp.Implements(unmarshaler) && reflect"),
    ("S58", ["C20"], "closest.go", 20, "j <= len(t)", "j < len(t)"),
    ("S59", ["C20"], "closest.go", 21, "dists[0][j] = j", "dists[0][j] = 0"),
    ("S60", ["C20"], "closest.go", 54, "l < mindist", "l <= mindist"),
    ("S61", ["C20"], "parser.go", 495, "float32(len(c))", "float32(len(p.retargs[0]))"),
    ("S62", ["C20", "C04"], "parser.go", 510, "len(cmdnames) == 1", "len(cmdnames) == 0"),
    ("S63", ["C19", "C08"], "command.go", 0, "len(subcommand) != 0", "len(subcommand) > 1"),
    ("S64", ["C13", "C05"], "ini.go", 551, "option.clearReferenceBeforeSet = true", "option.clearReferenceBeforeSet = false"),
    ("S65", ["C14"], "ini.go", 176, "line == nil && !more", "line != nil && !more"),
]

ENV = dict(os.environ, GOFLAGS="-mod=mod", GOPROXY="off", GOSUMDB="off", GOTOOLCHAIN="local")


def locate(src, line, old):
    lines = src.split("\n")
    cands = [i for i, l in enumerate(lines) if old in l]
    if line:
        near = [i for i in cands if abs(i + 1 - line) <= 3]
        if len(near) == 1:
            return near[0]
        if len(near) > 1:
            near.sort(key=lambda i: abs(i + 1 - line))
            return near[0]
        return None
    return cands[0] if len(cands) == 1 else None


def main():
    args = [a for a in sys.argv[1:] if not a.startswith("--")]
    dry = "--dry" in sys.argv
    k, n = (int(args[0]), int(args[1])) if len(args) == 2 else (0, 1)
    out = {}
    for idx, (name, props, f, line, old, new) in enumerate(M):
        src = open("/repo/" + f).read()
        at = locate(src, line, old)
        if at is None:
            print(name, "NOT LOCATED", f, line, old)
            continue
        if dry:
            print(name, f, at + 1, src.split("\n")[at].strip()[:110])
            continue
        if idx % n != k:
            continue
        only = os.environ.get('ONLY')
        if only and name not in only.split(','):
            continue
        props = [q for q in props if not os.environ.get('PROPS') or q in os.environ['PROPS'].split(',')] or props
        w = tempfile.mkdtemp(prefix="mut.", dir="/tmp")
        try:
            subprocess.check_call(["git", "-C", "/repo", "worktree", "add", "-q", "--detach", w + "/repo", "HEAD"])
            lines = src.split("\n")
            lines[at] = lines[at].replace(old, new, 1)
            open(w + "/repo/" + f, "w").write("\n".join(lines))
            r = subprocess.run(["go", "test", "-vet=off", "-count=1", "./..."], cwd=w + "/repo", env=ENV, capture_output=True, text=True, timeout=900)
            suite = "passes" if r.returncode == 0 else ("does-not-compile" if "[build failed]" in r.stdout + r.stderr else "fails")
            res = {"file": f, "line": at + 1, "old": old, "new": new, "suite_with_change": suite, "checks_quick": {}}
            if suite == "passes":
                os.makedirs(w + "/verif")
                for x in ("mc", "run.sh", "known_findings.txt"):
                    subprocess.check_call(["cp", "-a", "/verif/" + x, w + "/verif/"])
                for p in props:
                    e = dict(ENV, VERIF_REPO=w + "/repo")
                    rr = subprocess.run([w + "/verif/run.sh", p, "quick"], env=e, capture_output=True, text=True, timeout=1200)
                    sigs = [l.split("signature=")[1].split(" kind=")[0] for l in rr.stdout.split("\n") if l.startswith("  signature=")][:4]
                    res["checks_quick"][p] = {"result": "CAUGHT" if rr.returncode == 1 else ("MISSED" if rr.returncode == 0 else "rc=%d" % rr.returncode), "signatures": sigs}
            out[name] = res
            print(name, f, at + 1, suite, {p: v["result"] for p, v in res["checks_quick"].items()}, flush=True)
        finally:
            subprocess.call(["git", "-C", "/repo", "worktree", "remove", "--force", w + "/repo"])
            shutil.rmtree(w, ignore_errors=True)
    if not dry:
        json.dump(out, open("/verif/seeded/spare_mutants_results.%s.json" % os.environ.get('OUT', str(k)), "w"), indent=1, ensure_ascii=False)


if __name__ == "__main__":
    main()
