#!/bin/bash
# tools/revert_fixes.sh — for every "fixed:" line of known_findings.txt: revert that commit on a private copy of /repo and
# run the property's quick check against it. The violation has to come back (a fixed entry suppresses nothing).
export GOFLAGS=-mod=mod GOPROXY=off GOSUMDB=off GOTOOLCHAIN=local
grep "^fixed:" /verif/known_findings.txt | awk '{print $2, $3}' | sed 's/property=//' | while read p h; do
  W=$(mktemp -d /tmp/revtest.XXXXXX)
  git -C /repo worktree add -q --detach "$W/repo" HEAD || continue
  if ! git -C "$W/repo" revert --no-commit $h >/dev/null 2>&1; then
    echo "$p $h: revert does not apply cleanly (a later fix touches the same lines)"; git -C "$W/repo" revert --abort 2>/dev/null
    git -C /repo worktree remove --force "$W/repo"; rm -rf "$W"; continue
  fi
  mkdir -p "$W/verif"; cp -a /verif/mc /verif/run.sh /verif/known_findings.txt "$W/verif/"
  out=$(VERIF_REPO="$W/repo" "$W/verif/run.sh" $p quick 2>&1); rc=$?
  sig=$(echo "$out" | grep -E "^  signature=" | head -2 | sed 's/^  signature=//; s/ kind=.*//' | tr '\n' ';')
  echo "$p $h: rc=$rc $sig"
  git -C /repo worktree remove --force "$W/repo"; rm -rf "$W"
done
