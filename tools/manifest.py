#!/usr/bin/env python3
"""Regenerates /verif/MANIFEST.json from the table below (keeps it valid at all times)."""
import json, subprocess
MC = ("model_checking", "explicit-state exploration of a reference model with every enumerated trace replayed against the implementation (stateless, bounded-exhaustive, hand-written explorer)")
EX = ("exploration", "bounded-exhaustive enumeration of inputs/configurations on the real code against a reference model (hand-written stateless explorer)")
FE = ("fault_enumeration", "exhaustive enumeration of fault placements and byte strings on the real reader against a reference model (hand-written stateless explorer)")
T = {
 "C01": (MC, "4.1", "every unit sequence up to the depth bound, for every (type, placement, delimiter, short name, build path, option set) cell, is interpreted by the command-line reference model (CLM) and replayed against the real parser; every successful parse is compared field by field", "depth 3 quick / 4 thorough; declarations generated with reflect.StructOf; conversion of alphabet values taken from the conversion model that C11 checks"),
 "C02": (EX, "4.2", "for every (type, short name incl. multi-byte, optional-argument, PassDoubleDash, context, value) cell all admissible spellings {-xV, -x=V, -x V, --name=V, --name V} x {plain, double-quoted literal} are parsed by the real parser and must yield one identical outcome; flag clusters against their separated form", "values: all strings <= 3 quick / <= 4 thorough over a 12-character alphabet plus hand-picked negative numbers; admissibility rules as stated by the property"),
 "C03": (MC, "4.3", "every token sequence up to the depth bound under all 8 pass-through option sets on 10 declarations: remaining arguments of the real parser vs the CLM, plus the CLM-independent subsequence test and what Execute/CommandHandler received", "depth 4 quick / 5 thorough over a 14-token alphabet; only mutually accepted vectors are compared"),
 "C04": (EX, "4.4", "every byte string up to the bound as a token in 4 positions and every short vector of pathological tokens, under 32 parser option sets and two kitchen-sink declarations: returns normally, error typed as the CLM's fault says, stdout/stderr deltas exactly as PrintErrors prescribes", "byte strings <= 4/5 over 11 bytes; vectors <= 2/3 over 54 tokens; os.Stdout/os.Stderr swapped for files per worker"),
 "C05": (MC, "4.5", "complete product of value sources (initial, 0..2 default tags, env unset/one/two/empty, 0..2 INI entries, 0..2 occurrences) x 9 types x 10 read/parse histories x env-namespace settings; the per-option history machine {untouched, defaulted, ini, explicit} is replayed on the real Parser/IniParser and the final value compared with the precedence function", "histories are the 10 listed orders; plain-mode INI after a CLI parse and empty env values for non-string types are left out as unspecified"),
 "C06": (MC, "4.6", "all 64 required-masks over a 3-level command tree x positional count constraints x every unit sequence up to the bound: ErrRequired iff the CLM's missing set is non-empty, message names exactly the missing items, nothing executed", "depth 3 quick / 4 thorough; positional layouts deviation-bounded (one layout at a time); names recognised in messages through unique markers"),
 "C07": (MC, "4.7", "7 unknown-option policies x every sequence of valid tokens and near-miss names up to the bound; ErrUnknownFlag naming the option, verbatim pass-through, or exactly one handler call with (name, inline argument, unconsumed tail) and continuation on the returned slice", "depth 4 quick / 5 thorough over 29 units; handler name for clusters not asserted"),
 "C08": (MC, "4.8", "all command trees with <= 4 commands and depth <= 3, aliases / optional marks / name clashes as bounded deviations, both build paths, every token sequence up to the bound: Active chain, scoping (which counter moved), ErrCommandRequired / ErrUnknownCommand against the CLM", "depth 3 quick / 4 thorough; declaration deviations <= 1 quick / <= 2 thorough"),
 "C09": (MC, "4.9", "command trees with an executable command at every node x {Execute, CommandHandler, completion mode} x {command succeeds, fails} x every token sequence incl. every fault kind at every position: call log vs CLM verdict (fault => no call; clean => exactly one call, innermost command, remaining arguments, error returned unchanged)", "depth 3 (4 on small trees); declaration deviations <= 1; plus a model-independent consistency check (a parser error that is not the command's own means no call)"),
 "C10": (MC, "4.10", "every positional layout (0..3 scalars of 3 types, optional trailing slice, on parser or command) x every interleaving with options and the terminator up to the bound, against the CLM's positional queue", "depth 4 quick / 6 thorough"),
 "C11": (EX, "4.11", "every value of the 8- and 16-bit integer types in every base 2..36, limit tables for the wide types through 6 input paths, every string <= 4 over a 16-character numeric alphabet for 13 types x 4 bases, float rounding witnesses, choice near-misses; against an independent exact-arithmetic oracle (own digit parser + math/big / big.Rat) with three verdict classes", "strings <= 4; duration syntax = time.ParseDuration (trusted); grey spellings (leading +, inf/nan, hex floats, odd bool spellings) asserted for exactness only"),
 "C14": (FE, "4.14", "every byte string up to the bound and every file of up to 4/5 lines over valid entries, headers, noise (comments, blanks, CRLF, 4095..10000-byte lines, missing final newline) and 9 fault lines, with and without IgnoreUnknown, read by the real IniParser and compared with a reference reader: never a panic, noise changes nothing, every fault reported with exactly its 1-based line (or ErrUnknownGroup), IgnoreUnknown skips only unknown sections/options", "byte strings <= 6/7 over 13 bytes; files <= 4/5 lines over 28 lines; with several faults in different sections any of them is accepted (section order is C15's subject)"),
 "C19": (EX, "4.19", "every tag string up to the bound over the scanner-relevant bytes against a reference tag grammar, plus the full product of attribute keys x awkward values x escape renderings x repetitions, marks, group/command/positional attributes, colliding name pairs over all placements, bool defaults; exported model fields must echo the attributes, malformed input must give the typed setup error, never a panic", "tag strings <= 8 quick / <= 9 thorough over 6 bytes; grey tags (odd keys) only required not to panic"),
 "C20": (EX, "4.20", "every (name set, hidden mask, word) up to the stated bound is run through the real parser and compared with textbook Levenshtein and the suggestion rule", "names of length <= 3, sets of <= 3 names, words <= 3 (quick) / <= 4 (thorough); names read back from the message by alphabet"),
}
ids = [json.loads(l)["id"] for l in open("/verif/properties.jsonl")]
checks = []
for pid in sorted(T):
    (cat, tech), ref, text, note = T[pid]
    checks.append({"property_id": pid, "quick_cmd": f"/verif/run.sh {pid} quick", "thorough_cmd": f"/verif/run.sh {pid} thorough",
                   "evidence_file": f"/verif/evidence/{pid}.json", "replay_cmd_template": "/verif/run.sh replay {path}", "engine": "mc",
                   "level_claimed": {"category": cat, "text": text, "design_ref": ref}, "level_note": note, "technique": tech})
m = {
 "version": 1,
 "setup_cmd": "/verif/run.sh setup",
 "hooks": {"guard": "verif",
           "enable": "no hooks are committed to /repo; every check links /repo's working tree through a replace directive (C15 additionally instruments map iteration with a generated -overlay)",
           "baseline_off_cmd": "cd /repo && GOFLAGS=-mod=mod GOPROXY=off GOSUMDB=off GOTOOLCHAIN=local go test -vet=off -count=1 ./...",
           "source_commits": [], "add_only": True},
 "engines": [{"name": "mc", "path": "/verif/mc", "serves_properties": sorted(T),
              "kind_free_text": "hand-written stateless bounded-exhaustive explorer (choice-tree DFS, deviation bounds, 16 worker processes, replay files) running the real library on every leaf against reference models written in Go"}],
 "checks": checks,
 "notes": "known findings and repaired defects: /verif/known_findings.txt; design: /verif/DESIGN.md",
 "not_applicable": [{"property_id": i, "reason": "check not built yet in this session (planned, see DESIGN.md); not a claim that the technique cannot apply"} for i in ids if i not in T],
}
json.dump(m, open("/verif/MANIFEST.json", "w"), indent=1, ensure_ascii=False)
print("claimed", len(checks), "not_applicable", len(m["not_applicable"]))
