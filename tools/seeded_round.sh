#!/bin/bash
# tools/seeded_round.sh <label> <seed-dir>...  — runs the named seeds against their own property's quick check on private
# copies and records the outcome in meta.json under checks_quick (keeping any earlier first_run_blind mark; with BLIND=1 the
# outcome is also stored as first_run_blind).
cd /verif
label=$1; shift
for d in "$@"; do
  [ -f $d/patch.diff ] || continue
  out=$(tools/seeded.sh /verif/$d 2>&1)
  echo "== $d"; echo "$out" | grep -v "^WARNING"
  BLIND=${BLIND:-0} python3 - "$d" "$out" <<'PY'
import json,sys,re,os
d,out=sys.argv[1],sys.argv[2]
m=json.load(open(d+'/meta.json'))
old=m.get('checks_quick') or {}
res={}
for line in out.splitlines():
    mm=re.match(r'^(C\d+): (CAUGHT|MISSED)( rc=\d+ ?(.*))?$',line)
    if mm:
        e={"result":mm.group(2),"signatures":[s for s in (mm.group(4) or '').split(';') if s]}
        if 'first_run_blind' in old.get(mm.group(1),{}): e['first_run_blind']=old[mm.group(1)]['first_run_blind']
        elif os.environ.get('BLIND')=='1': e['first_run_blind']=mm.group(2)
        res[mm.group(1)]=e
if res: m['checks_quick']=res
m['suite_with_change']='passes' if 'suite: passes' in out else 'fails'
json.dump(m,open(d+'/meta.json','w'),indent=1,ensure_ascii=False)
PY
done
