#!/bin/bash
# runs every seeded change against its property's quick check and records the outcome in its meta.json
cd /verif
# usage: seeded_all.sh [stream k of n]  — seeds whose index mod n == k
k=${1:-0}; n=${2:-1}; i=-1
for d in seeded/C*-*; do
  i=$((i+1)); [ $((i % n)) -eq $k ] || continue
  [ -f $d/patch.diff ] || continue
  out=$(tools/seeded.sh /verif/$d 2>&1)
  echo "== $d"; echo "$out" | grep -v "^WARNING"
  python3 - "$d" "$out" <<'PY'
import json,sys,re
d,out=sys.argv[1],sys.argv[2]
m=json.load(open(d+'/meta.json'))
res={}
for line in out.splitlines():
    mm=re.match(r'^(C\d+): (CAUGHT|MISSED)( rc=\d+ ?(.*))?$',line)
    if mm:
        res[mm.group(1)]={"result":mm.group(2),"signatures":[s for s in (mm.group(4) or '').split(';') if s]}
m['checks_quick']=res
m['suite_with_change']='passes' if 'suite: passes' in out else 'fails'
json.dump(m,open(d+'/meta.json','w'),indent=1,ensure_ascii=False)
PY
done
