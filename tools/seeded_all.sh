#!/bin/bash
# runs every seeded change against its property's quick check (on private copies) and records the outcome in its
# meta.json (keeping the blind first-run marks). usage: seeded_all.sh [k n]  — the seeds whose index mod n == k
cd /verif
k=${1:-0}; n=${2:-1}; i=-1; sel=""
for d in $(ls -d seeded/C*-* | sort -V); do
  i=$((i+1)); [ $((i % n)) -eq $k ] || continue
  sel="$sel $d"
done
exec tools/seeded_round.sh all $sel
