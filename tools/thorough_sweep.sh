#!/bin/bash
# tools/thorough_sweep.sh [budget_s] — runs every check's thorough tier with a shortened internal budget (default 240 s; the registered
# thorough commands use 600-1500 s) and keeps each evidence file under /root/r10/thorough_evidence: a sweep for alarms in the deeper tiers.
B=${1:-240}
cd "$(dirname "$0")/.."
mkdir -p /root/r10/thorough_evidence
for id in C06 C09 C10 C12 C14 C18 C04 C17 C02 C07 C11 C20 C19 C15 C05 C13 C16; do
  start=$(date +%s)
  out=$(VERIF_BUDGET_S=$B ./run.sh $id thorough 2>&1); rc=$?
  echo "$out" | grep -E "^(VIOLATION|NOTE|  signature)" | head -10
  echo "$out" | tail -1
  echo "   -> $id exit=$rc $(( $(date +%s) - start ))s"
  cp evidence/$id.json /root/r10/thorough_evidence/$id.json
done
echo SWEEP-DONE
