#!/bin/bash
# tools/seeded.sh <seeded-dir> [check-id ...]
# Applies /verif/seeded/<name>/patch.diff to /repo, runs the repository's own suite (must still pass),
# runs the named checks' quick commands (default: the property named in meta.json), and reverts /repo.
# Prints one line per check: CAUGHT / MISSED, and the violation signatures.
set -u
d="$1"; shift
export GOFLAGS=-mod=mod GOPROXY=off GOSUMDB=off GOTOOLCHAIN=local
[ -f "$d/patch.diff" ] || { echo "no patch.diff in $d"; exit 2; }
if [ -n "$(git -C /repo status --porcelain)" ]; then echo "/repo is not clean"; exit 2; fi
ids="$*"
if [ -z "$ids" ]; then ids=$(python3 -c "import json;print(json.load(open('$d/meta.json'))['property'])"); fi
git -C /repo apply "$d/patch.diff" || { echo "patch does not apply"; exit 2; }
ev=$(mktemp -d); cp -a /verif/evidence/. "$ev"/
trap 'git -C /repo checkout -- . ; rm -f /repo/zz_seeded_demo_test.go; cp -a "$ev"/. /verif/evidence/; rm -rf "$ev"' EXIT
suite=$(cd /repo && go test -vet=off -count=1 ./... 2>&1 | tail -3)
if echo "$suite" | grep -q "^ok"; then echo "suite: passes with the change"; else echo "suite: FAILS with the change: $suite"; fi
if [ -f "$d/demo_test.go.txt" ]; then
  cp "$d/demo_test.go.txt" /repo/zz_seeded_demo_test.go
  if (cd /repo && go test -vet=off -count=1 -run TestSeeded . >/dev/null 2>&1); then echo "demo: PASSES with the change (unexpected)"; else echo "demo: fails with the change (expected)"; fi
  rm -f /repo/zz_seeded_demo_test.go
fi
for id in $ids; do
  out=$(/verif/run.sh $id ${TIER:-quick} 2>&1); rc=$?
  sigs=$(echo "$out" | grep -E "^  signature=" | sed 's/^  signature=//; s/ kind=.*//' | head -5 | tr '\n' ';')
  if [ $rc -eq 1 ]; then echo "$id: CAUGHT rc=1 $sigs"; elif [ $rc -eq 0 ]; then echo "$id: MISSED rc=0"; else echo "$id: rc=$rc $(echo "$out" | tail -3)"; fi
done
rm -f /verif/replays/*.json
