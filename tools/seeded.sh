#!/bin/bash
# tools/seeded.sh <seeded-dir> [check-id ...]
# Runs the repository's suite, the seed's demonstration and the named checks' quick commands (default: the
# property named in meta.json) against the seeded change. By default this happens on private copies: a scratch
# worktree of /repo with the patch applied and a copy of /verif's machinery pointed at it (VERIF_REPO), so that
# /repo itself and a sweep that may be running on it are not disturbed. With INPLACE=1 the patch is applied to
# /repo itself (git -C /repo apply) and reverted afterwards.
set -u
d="$1"; shift
export GOFLAGS=-mod=mod GOPROXY=off GOSUMDB=off GOTOOLCHAIN=local
[ -f "$d/patch.diff" ] || { echo "no patch.diff in $d"; exit 2; }
ids="$*"
if [ -z "$ids" ]; then ids=$(python3 -c "import json;print(json.load(open('$d/meta.json'))['property'])"); fi
if [ "${INPLACE:-0}" = 1 ]; then
  if [ -n "$(git -C /repo status --porcelain)" ]; then echo "/repo is not clean"; exit 2; fi
  git -C /repo apply "$d/patch.diff" || { echo "patch does not apply"; exit 2; }
  ev=$(mktemp -d); cp -a /verif/evidence/. "$ev"/
  trap 'git -C /repo checkout -- . ; rm -f /repo/zz_seeded_demo_test.go; cp -a "$ev"/. /verif/evidence/; rm -rf "$ev"; rm -f /verif/replays/*.json' EXIT
  R=/repo; V=/verif
else
  W=$(mktemp -d /tmp/seedrun.XXXXXX)
  git -C /repo worktree add -q --detach "$W/repo" HEAD || exit 2
  trap 'git -C /repo worktree remove --force "$W/repo" 2>/dev/null; rm -rf "$W"' EXIT
  git -C "$W/repo" apply "$d/patch.diff" || { echo "patch does not apply"; exit 2; }
  mkdir -p "$W/verif"
  if [ -n "${VERIF_REV:-}" ]; then
    # the machinery as committed at that revision (lets the working tree be edited while a blind run is in progress)
    git -C /verif archive "$VERIF_REV" mc run.sh known_findings.txt | tar -x -C "$W/verif"
  else
    cp -a /verif/mc /verif/run.sh /verif/known_findings.txt "$W/verif/"
  fi
  R="$W/repo"; V="$W/verif"; export VERIF_REPO="$R"
fi
suite=$(cd "$R" && go test -vet=off -count=1 ./... 2>&1 | tail -3)
if echo "$suite" | grep -q "^ok"; then echo "suite: passes with the change"; else echo "suite: FAILS with the change: $suite"; fi
if [ -f "$d/demo_test.go.txt" ]; then
  cp "$d/demo_test.go.txt" "$R/zz_seeded_demo_test.go"
  if (cd "$R" && go test -vet=off -count=1 -run TestSeeded . >/dev/null 2>&1); then echo "demo: PASSES with the change (unexpected)"; else echo "demo: fails with the change (expected)"; fi
  rm -f "$R/zz_seeded_demo_test.go"
fi
for id in $ids; do
  out=$("$V/run.sh" $id ${TIER:-quick} 2>&1); rc=$?
  sigs=$(echo "$out" | grep -E "^  signature=" | sed 's/^  signature=//; s/ kind=.*//' | head -5 | tr '\n' ';')
  if [ $rc -eq 1 ]; then echo "$id: CAUGHT rc=1 $sigs"; elif [ $rc -eq 0 ]; then echo "$id: MISSED rc=0"; else echo "$id: rc=$rc $(echo "$out" | tail -3)"; fi
done
