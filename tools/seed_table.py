#!/usr/bin/env python3
"""seed_table.py <round> — prints the markdown table of the seeded changes of one round from their meta.json files.
seed_table.py --restore-blind — puts back the `first_run_blind` marks that a sweep's rewrite of `checks_quick` dropped
(taken from the committed version of each meta.json)."""
import glob, json, subprocess, sys


def load(d):
    return json.load(open(d + '/meta.json'))


def restore():
    n = 0
    for d in sorted(glob.glob('/verif/seeded/C*-*')):
        rel = d[len('/verif/'):] + '/meta.json'
        try:
            old = json.loads(subprocess.check_output(['git', '-C', '/verif', 'show', (sys.argv[2] if len(sys.argv) > 2 else 'HEAD') + ':' + rel]))
        except Exception:
            continue
        m = load(d)
        ch = False
        for cid, e in (old.get('checks_quick') or {}).items():
            if 'first_run_blind' in e and cid in (m.get('checks_quick') or {}) and 'first_run_blind' not in m['checks_quick'][cid]:
                m['checks_quick'][cid]['first_run_blind'] = e['first_run_blind']
                ch = True
        for k in ('first_run',):
            if k in old and k not in m:
                m[k] = old[k]
                ch = True
        if ch:
            json.dump(m, open(d + '/meta.json', 'w'), indent=1, ensure_ascii=False)
            n += 1
    print('restored', n)


def table(rnd):
    print('| seed | change | needs | blind first run | now | first signature |')
    print('|---|---|---|---|---|---|')
    caught = blind = tot = 0
    for d in sorted(glob.glob('/verif/seeded/C*-*'), key=lambda s: (s.split('/')[-1].split('-')[0], int(s.split('-')[-1]))):
        m = load(d)
        if m.get('round') != rnd:
            continue
        pid = m['property']
        e = (m.get('checks_quick') or {}).get(pid, {})
        sig = (e.get('signatures') or [''])[0]
        tot += 1
        caught += e.get('result') == 'CAUGHT'
        blind += e.get('first_run_blind') == 'CAUGHT'
        print('| %s | %s | %s | %s | %s | `%s` |' % (d.split('/')[-1], m.get('change', '').replace('|', '\\|'), m.get('needs_to_manifest', '').replace('|', '\\|'),
                                                    e.get('first_run_blind', '-'), e.get('result', '?'), sig.replace('|', '\\|') if False else sig))
    print()
    print('round %d: %d seeds, blind first run %d, now %d' % (rnd, tot, blind, caught))


if __name__ == '__main__':
    if sys.argv[1] == '--restore-blind':
        restore()
    else:
        table(int(sys.argv[1]))
