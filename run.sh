#!/bin/bash
# /verif/run.sh <id> quick|thorough      run one property's check against /repo's current working tree
# /verif/run.sh replay <file>            re-execute one recorded violation
# /verif/run.sh setup                    build everything once (MANIFEST.setup_cmd)
set -u
export GOFLAGS=-mod=mod GOPROXY=off GOSUMDB=off GOTOOLCHAIN=local GONOSUMDB=* GONOSUMCHECK=1
export SOURCE_DATE_EPOCH=1700000000
cd /verif/mc || exit 2
mkdir -p /verif/bin
build() {
  # the harness links /repo (replace directive) so this rebuilds from /repo's working tree
  cp /repo/go.sum go.sum 2>/dev/null
  if ! go build -o /verif/bin/mc ./cmd/mc 2>/verif/bin/build.log; then
    # the harness itself builds on the unchanged tree; a failure here comes from the tree under test
    cat /verif/bin/build.log >&2
    return 1
  fi
  go build -o /verif/bin/maporder ./cmd/maporder 2>>/verif/bin/build.log || { cat /verif/bin/build.log >&2; return 1; }
}
# C15: instrument every map iteration of /repo's current sources and build the explorer against that overlay
build15() {
  rm -rf /verif/bin/c15overlay
  if ! (cd /repo && /verif/bin/maporder /verif/bin/c15overlay) >/verif/bin/maporder.log 2>&1; then
    cat /verif/bin/maporder.log >&2
    return 1
  fi
  if ! go build -tags verifmaporder -overlay /verif/bin/c15overlay/overlay.json -o /verif/bin/mc15 ./cmd/mc 2>/verif/bin/build15.log; then
    cat /verif/bin/build15.log >&2
    return 1
  fi
}
case "${1:-}" in
  setup)
    build || exit 2
    build15 || exit 2
    exit 0;;
  replay)
    build || exit 2
    if grep -q '"property": "C15"' "$2"; then
      build15 || exit 2
      exec /verif/bin/mc15 replay "$2"
    fi
    exec /verif/bin/mc replay "$2";;
  "")
    echo "usage: run.sh <id> quick|thorough" >&2; exit 2;;
  *)
    id="$1"; tier="${VERIF_TIER:-${2:-quick}}"
    if ! build; then
      echo "harness build failed against /repo's working tree (see above)" >&2
      exit 2
    fi
    if [ "$id" = C15 ]; then
      if ! build15; then
        echo "instrumented build failed against /repo's working tree (see above)" >&2
        exit 2
      fi
      exec /verif/bin/mc15 check "$id" "$tier"
    fi
    exec /verif/bin/mc check "$id" "$tier";;
esac
