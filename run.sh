#!/bin/bash
# /verif/run.sh <id> quick|thorough      run one property's check against /repo's current working tree
# /verif/run.sh replay <file>            re-execute one recorded violation
# /verif/run.sh setup                    build everything once (MANIFEST.setup_cmd)
set -u
V="$(cd "$(dirname "$0")" && pwd)"   # normally /verif; a snapshot of it works too
export VERIF_DIR="$V"
R="${VERIF_REPO:-/repo}"   # the tree under test (normally /repo; tools/seeded.sh points a private copy of /verif at a scratch worktree)
export GOFLAGS=-mod=mod GOPROXY=off GOSUMDB=off GOTOOLCHAIN=local GONOSUMDB=* GONOSUMCHECK=1
export SOURCE_DATE_EPOCH=1700000000
cd "$V/mc" || exit 2
mkdir -p "$V/bin" "$V/evidence" "$V/replays"
build() {
  # the harness links /repo (replace directive) so this rebuilds from /repo's working tree
  cp "$R/go.sum" go.sum 2>/dev/null
  if [ "$R" != /repo ]; then go mod edit -replace "github.com/jessevdk/go-flags=$R"; fi
  if ! go build -o $V/bin/mc ./cmd/mc 2>$V/bin/build.log; then
    # the harness itself builds on the unchanged tree; a failure here comes from the tree under test
    cat $V/bin/build.log >&2
    return 1
  fi
  go build -o $V/bin/maporder ./cmd/maporder 2>>$V/bin/build.log || { cat $V/bin/build.log >&2; return 1; }
}
# C15: instrument every map iteration of /repo's current sources and build the explorer against that overlay
build15() {
  rm -rf $V/bin/c15overlay
  if ! (cd "$R" && $V/bin/maporder $V/bin/c15overlay) >$V/bin/maporder.log 2>&1; then
    cat $V/bin/maporder.log >&2
    return 1
  fi
  if ! go build -tags verifmaporder -overlay $V/bin/c15overlay/overlay.json -o $V/bin/mc15 ./cmd/mc 2>$V/bin/build15.log; then
    cat $V/bin/build15.log >&2
    return 1
  fi
}
case "${1:-}" in
  setup)
    build || exit 2
    build15 || exit 2
    exit 0;;
  replay)
    build || exit 2
    if grep -q '"property": "C15"' "$2"; then
      build15 || exit 2
      exec $V/bin/mc15 replay "$2"
    fi
    exec $V/bin/mc replay "$2";;
  "")
    echo "usage: run.sh <id> quick|thorough" >&2; exit 2;;
  *)
    id="$1"; tier="${VERIF_TIER:-${2:-quick}}"
    if ! build; then
      echo "harness build failed against /repo's working tree (see above)" >&2
      exit 2
    fi
    if [ "$id" = C15 ]; then
      if ! build15; then
        echo "instrumented build failed against /repo's working tree (see above)" >&2
        exit 2
      fi
      exec $V/bin/mc15 check "$id" "$tier"
    fi
    exec $V/bin/mc check "$id" "$tier";;
esac
